#!/usr/bin/env python3
"""Sanity tests of the symx engine itself (not a registered check): known answers for small programs."""
import os
import sys

sys.path.insert(0, os.path.dirname(os.path.dirname(os.path.abspath(__file__))))
from symx.core import Explorer, NonFinite  # noqa: E402
from symx.npx import symarray  # noqa: E402
import numpy as np  # noqa: E402


def run(fn, **kw):
    ex = Explorer(**kw)
    ex.run(fn)
    return ex


def t_abs():
    def fn(ctx):
        x = ctx.real("x")
        ctx.claim("abs>=0", abs(x) >= 0)
        ctx.claim("abs(x)^2=x^2", abs(x) * abs(x) == x * x)
    ex = run(fn)
    assert ex.stats.paths == 2 and ex.stats.sat == 0 and ex.stats.discharged == 4, ex.stats.as_dict()


def t_div():
    def fn(ctx):
        x, y = ctx.real("x"), ctx.real("y")
        q = y / x
        ctx.claim("q*x=y", q * x == y)
    ex = run(fn)
    # one path divides (claim holds), one path has x == 0 (non-finite candidate)
    assert ex.stats.paths == 2 and ex.stats.paths_nonfinite == 1 and len(ex.candidates) == 1, ex.stats.as_dict()
    assert ex.candidates[0][0].startswith("finite-values") and ex.candidates[0][1]["x"] == 0


def t_int():
    def fn(ctx):
        x = ctx.real("x")
        ctx.assume((x >= 0) & (x < 4))
        k = int(x)
        ctx.claim("k<=x<k+1", (x >= k) & (x < k + 1))
        ctx.note("k", k)
    ex = run(fn)
    assert ex.stats.paths - ex.stats.paths_aborted == 4 and ex.stats.sat == 0, ex.stats.as_dict()


def t_false_claim_gives_model():
    def fn(ctx):
        x, y = ctx.real("x"), ctx.real("y")
        ctx.assume(x < y)
        ctx.claim("wrong", (x + y) / 2 <= x + 1)       # false whenever y - x > 2
    ex = run(fn)
    assert ex.stats.sat == 1
    m = ex.candidates[0][1]
    assert m["y"] - m["x"] > 2, m


def t_numpy_object_arrays():
    def fn(ctx):
        a = symarray(ctx.reals("a", 4))
        ctx.claim("sum", np.sum(a) == a[0] + a[1] + a[2] + a[3])
        ctx.claim("diff", np.diff(a)[1] == a[2] - a[1])
        ctx.claim("mean", np.mean(a) * 4 == np.sum(a))
        mx = a.max()                                   # forks on the orderings
        ctx.claim("max", (mx >= a[0]) & (mx >= a[1]) & (mx >= a[2]) & (mx >= a[3]))
    ex = run(fn)
    assert ex.stats.sat == 0 and ex.stats.paths >= 4, ex.stats.as_dict()


def t_sqrt():
    def fn(ctx):
        x = ctx.real("x")
        ctx.assume(x >= 0)
        r = x ** 0.5
        ctx.claim("r*r=x", r * r == x)
        ctx.claim("r>=0", r >= 0)
    ex = run(fn)
    assert ex.stats.sat == 0 and ex.stats.inconclusive == 0, ex.stats.as_dict()


def t_split_is_exact():
    def fn(ctx):
        xs = ctx.reals("x", 5)
        n = sum(1 for v in xs if bool(v > 0))
        ctx.claim("count", n >= 0)
    full = run(fn)
    ex = Explorer()
    ex.collect_depth = 2
    ex.run(fn)
    tot = ex.stats.paths
    for r in ex.roots:
        e2 = Explorer()
        e2.run(fn, root=r)
        tot += e2.stats.paths
    assert full.stats.paths == 32 == tot, (full.stats.paths, tot)


def t_mod_and_allocators():
    from symx.npx import NPProxy

    def fn(ctx):
        npp = NPProxy([])
        x = ctx.real("x")
        ctx.assume((x >= -3) & (x < 5))
        r = x % 2
        ctx.claim("0<=r<2", (r >= 0) & (r < 2))
        q, r2 = divmod(x, 2)
        ctx.claim("divmod", (q * 2 + r2 == x) & (r2 == r))
        out = npp.empty(3)
        out[1] = x
        ctx.claim("empty-stores-symbolic", (out[1] == x) & (out.dtype == object))
        z = npp.zeros(2, dtype=float)
        z[0] = x + 1
        ctx.claim("zeros(float)-stores-symbolic", z[0] - 1 == x)
        bins = symarray([ctx.const(0), ctx.const(1), ctx.const(2)])
        d = npp.digitize(symarray([x]), bins)
        ctx.claim("digitize", ((x < 0) & (d[0] == 0)) | ((x >= 0) & (x < 1) & (d[0] == 1)) | ((x >= 1) & (x < 2) & (d[0] == 2)) | ((x >= 2) & (d[0] == 3)))
    ex = run(fn)
    assert ex.stats.sat == 0 and ex.stats.inconclusive == 0 and ex.stats.paths >= 4, ex.stats.as_dict()


if __name__ == "__main__":
    tests = [v for k, v in sorted(globals().items()) if k.startswith("t_")]
    for t in tests:
        t()
        print("ok", t.__name__)
    print("engine self-test: %d passed" % len(tests))
