"""Symbolic strings of concrete length: one solver integer (character code) per position.

Implements exactly what traffic-weaver's name dispatch does with a name: startswith, replace of one
character by another, equality, formatting into an f-string (through an opaque token that the
attribute proxy turns back into the symbolic string).  No string theory is involved: everything
becomes linear integer arithmetic over the character codes.
"""
from __future__ import annotations

from . import core
from .core import Sym, And, Or, Not, Implies, HarnessError

_TOK = "\x00SYMSTR%d\x00"


class SymStr:
    def __init__(self, chars, ctx=None):
        self.chars = [c if isinstance(c, Sym) else Sym.lift(ord(c) if isinstance(c, str) else c) for c in chars]
        self.ctx = ctx or core.CUR

    @staticmethod
    def symbolic(ctx, name, n, lo=32, hi=126):
        return SymStr([ctx.int("%s_%d" % (name, i), lo, hi) for i in range(n)], ctx)

    def __len__(self):
        return len(self.chars)

    def eq_const(self, s):
        if len(s) != len(self.chars):
            return False
        return And(*[c == ord(ch) for c, ch in zip(self.chars, s)])

    def __eq__(self, o):
        if isinstance(o, str):
            return self.eq_const(o)
        if isinstance(o, SymStr):
            if len(o) != len(self):
                return False
            return And(*[a == b for a, b in zip(self.chars, o.chars)])
        return False

    def __ne__(self, o):
        return Not(self == o)

    def __hash__(self):
        return id(self)

    def startswith(self, prefix):
        if isinstance(prefix, tuple):
            return bool(Or(*[self._starts(p) for p in prefix]))
        return bool(self._starts(prefix))

    def _starts(self, p):
        if len(p) > len(self.chars):
            return False
        return And(*[c == ord(ch) for c, ch in zip(self.chars, p)])

    def replace(self, old, new, count=-1):
        if len(old) != 1 or len(new) != 1 or count != -1:
            raise HarnessError("SymStr.replace models single-character replacement only")
        ctx = self.ctx
        out = []
        for c in self.chars:
            if c.is_const():
                out.append(Sym.lift(ord(new)) if c.const() == ord(old) else c)
                continue
            d = ctx.fresh("ch")
            ctx.add_def(And(Implies(c == ord(old), d == ord(new)), Implies(c != ord(old), d == c)))
            out.append(d)
        return SymStr(out, ctx)

    def __add__(self, o):
        if isinstance(o, str):
            return SymStr(self.chars + [Sym.lift(ord(ch)) for ch in o], self.ctx)
        if isinstance(o, SymStr):
            return SymStr(self.chars + o.chars, self.ctx)
        return NotImplemented

    def __radd__(self, o):
        if isinstance(o, str):
            return SymStr([Sym.lift(ord(ch)) for ch in o] + self.chars, self.ctx)
        return NotImplemented

    def __format__(self, spec):
        if spec:
            raise HarnessError("format spec on a symbolic string")
        tab = self.ctx.__dict__.setdefault("_symstr_tokens", [])
        tab.append(self)
        return _TOK % (len(tab) - 1)

    def __str__(self):
        return self.__format__("")

    def __repr__(self):
        return "SymStr(len=%d)" % len(self.chars)

    def concretize(self, model):
        return "".join(chr(int(model[k])) for k in self.names())


def decode(ctx, s):
    """a Python str possibly containing SymStr tokens -> SymStr (or the plain str if it has none)"""
    if "\x00SYMSTR" not in s:
        return s
    tab = ctx.__dict__.get("_symstr_tokens", [])
    out = []
    i = 0
    while i < len(s):
        if s.startswith("\x00SYMSTR", i):
            j = s.index("\x00", i + 1)
            out.extend(tab[int(s[i + 7:j])].chars)
            i = j + 1
        else:
            out.append(Sym.lift(ord(s[i])))
            i += 1
    return SymStr(out, ctx)
