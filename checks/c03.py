"""C03 - matching moves only interior samples, along the documented profile."""
import argparse
import sys

from symx.runner import run_check
from checks.matchfam import MatchAPI, MatchLong, Kernel, KernelAffine, SymbolicAlpha

from symx.runner import Family, arr, increasing
from checks.matchfam import cx, gap_grids
from fractions import Fraction
from symx.core import Sym


class ViaWeaver(Family):
    name = "weaver-integral-match"
    doc = "Weaver.integral_match on a recreated series: fixed points (every n-th sample) unchanged, idempotent"

    def configs(self, tier):
        out = []
        for m in ((3, 4) if tier == "quick" else (3, 4, 5, 6)):
            for n in (2, 3, 4):
                for strategy in ("PiecewiseConstantRFA", "LinearFixedRFA"):
                    for trule in ("trapezoid", "rectangle"):
                        for al in ("1", "2"):
                            if tier == "quick" and (m + n + len(strategy) + len(trule) + int(al)) % 2:
                                continue
                            out.append({"m": m, "n": n, "strategy": strategy, "trule": trule, "alpha": al,
                                        "grid": [str(g) for g in gap_grids(m, tier, limit=1)[2]]})
        return out

    def run(self, ctx, inst, m, n, strategy, trule, alpha, grid):
        from traffic_weaver import Weaver, rfa
        gx = [Fraction(g) for g in grid]
        ys = ctx.reals("y", m)
        w = Weaver(cx(ctx, gx), arr(ctx, ys)).recreate_from_average(n, rfa_class=getattr(rfa, strategy))
        before = list(w.get()[1])
        al = ctx.const(Fraction(alpha)) if ctx.symbolic else float(Fraction(alpha))
        w.integral_match(target_function_integral_method=trule, alpha=al)
        after = list(w.get()[1])
        ctx.claim("length-unchanged", len(after) == len(before) == (m - 1) * n + 1)
        for k in range(m):
            ctx.claim("fixed-point-unchanged", ctx.same(after[k * n], before[k * n]), {"k": k})
        w.integral_match(target_function_integral_method=trule, alpha=al)
        again = list(w.get()[1])
        for i in range(len(after)):
            ctx.claim("idempotent", ctx.eq(again[i], after[i]), {"i": i})


META = {
    "explanation": "Same symbolic runs of the real matching code as C01, with the claims of C03 evaluated on every path: "
                   "samples at or outside the first/last fixed point and every fixed point are the identical term as the "
                   "input; interior displacements d_i satisfy d_i*w_j == d_j*w_i against the documented weights "
                   "w = 1-(2|x-c|/width)^alpha computed by an independent oracle (cross-multiplied, no division), all "
                   "d_i have one sign, and matching the result again returns the same terms. Kernel family: y and the "
                   "target integral both symbolic on every listed rational grid (the kernel is affine in them).",
    "bounds": {"quick": "as C01 quick; kernel lattice: grids of 3..8 points with gaps in {1,2,3}/2 (sampled) and uniform, "
                        "integer alpha 1..3; kernel with symbolic x N<=5",
               "thorough": "as C01 thorough; 40 gap patterns per N"},
    "outside": ["more samples than the bound", "float rounding", "smoothing after matching",
                "intervals without interior sample (excluded by the property)"],
    "assumptions": ["precondition of the property (distinct fixed points, >= 1 interior sample per interval)",
                    "symbolic-alpha family: uninterpreted pow with sign/monotonicity axioms"],
    "stubs": [],
}

if __name__ == "__main__":
    ap = argparse.ArgumentParser()
    ap.add_argument("--tier", default="quick")
    a = ap.parse_args()
    sys.exit(run_check("C03", "matching profile", [MatchAPI("C03"), MatchLong("C03"), ViaWeaver(), Kernel("C03"), KernelAffine("C03"),
                                                   SymbolicAlpha("C03")], a.tier, META))
