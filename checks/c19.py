"""C19 - remote dataset cache is never corrupt, stale-crossed or fed unchecked data."""
import argparse
import gzip as gzip_mod
import hashlib
import importlib
import itertools
import os
import pickle
import shutil
import sys
import tempfile
from contextlib import contextmanager
from urllib.error import URLError

import numpy as np

from symx.runner import Family, run_check
from symx.core import Sym, PathAbort
from symx import fsmodel
from symx.fsmodel import ModelEnv, Killed, Scheduler, KillState


# ---------------------------------------------------------------------------------------------- real-FS twin (replay)

def good_bytes(ds):
    """a payload larger than two 8 KiB reads, so that chunked hashing matters"""
    k = sum(ord(c) for c in ds) % 97
    return "".join("%d,%d.%03d\n" % (i, k + i % 7, i % 1000) for i in range(1800)).encode()


class RealEnv(KillState):
    """Same step discipline as ModelEnv on a real temporary directory (used for the float64/real replay)."""

    def __init__(self, ctx):
        self.ctx = ctx
        self.init_kill()
        self.root = tempfile.mkdtemp(prefix="c19-replay-")
        self.data_home = os.path.join(self.root, "home")
        self.env_set = True
        self.step, self.frozen, self.kill_at = 0, False, None
        self.attempt_outcome = lambda i: 0
        self.payload_klass = lambda i: 0
        self.attempts = self.net_calls = self.sleeps = 0
        self.pinned_of, self.url_of = {}, {}
        self.sched, self.shared = None, set()
        self.gz = False

    def cleanup(self):
        shutil.rmtree(self.root, ignore_errors=True)

    def restart(self):
        self.frozen, self.kill_at, self.step, self.attempts = False, None, 0, 0
        self.kill_tid = self.kill_at_t = None
        self.init_kill()
        self.attempt_outcome = lambda i: 0
        self.payload_klass = lambda i: 0

    def effect(self, what, path=None):
        if self.frozen:
            return False
        if self.sched is not None and path is not None and path in self.shared:
            self.sched.yield_point()
        self.step += 1
        if self.kill_at is not None and self.kill_at == self.step:
            self.frozen = True
            raise Killed(what)
        self.thread_kill_check(what)
        return True

    def damage(self, p):
        b = open(p, "rb").read()
        open(p, "wb").write(b[: len(b) // 2])

    def payload_bytes(self, ds, klass):
        b = good_bytes(ds)
        if klass == 1:
            b = b[:-6] + b"9" + b[-5:]            # corrupted near the END (beyond the first read)
        elif klass == 2:
            b = b[: len(b) // 2]
        return gzip_mod.compress(b, mtime=0) if self.gz and klass != 2 else (gzip_mod.compress(b, mtime=0)[:10] if self.gz else b)

    def checksum(self, ds):
        b = good_bytes(ds)
        return hashlib.sha256(gzip_mod.compress(b, mtime=0) if self.gz else b).hexdigest()

    def cache_state(self, p, dataset):
        if not os.path.exists(p):
            return "absent"
        try:
            a = pickle.load(open(p, "rb"))
        except Exception as e:  # noqa: BLE001
            return "CORRUPT:%s" % type(e).__name__
        exp = np.loadtxt(good_bytes(dataset).decode().splitlines(), delimiter=",")
        return "complete-verified" if isinstance(a, np.ndarray) and a.shape == exp.shape and np.array_equal(a, exp) else "CORRUPT:foreign"

    @contextmanager
    def installed(self):
        base = importlib.import_module("traffic_weaver.datasets._base")
        env = self
        real_open = open

        def makedirs(p, exist_ok=False, **kw):
            if os.path.isdir(p):
                if not exist_ok:
                    raise FileExistsError(p)
                return
            if env.effect("makedirs", p):
                os.makedirs(p, exist_ok=True)

        def rename(a, b):
            if env.effect("rename", b):
                os.rename(a, b)

        def exists_(p):
            if env.sched is not None and p in env.shared:
                env.sched.yield_point()
            return os.path.exists(p)

        class _Path:
            join = staticmethod(os.path.join)

            @staticmethod
            def expanduser(p):          # "~" is a scratch directory, never the real home
                return os.path.join(env.root, "default-home") + p[1:] if p.startswith("~") else p
        _Path.exists = staticmethod(exists_)

        class _OS:
            path = _Path
        _OS.makedirs = staticmethod(makedirs)
        _OS.rename = staticmethod(rename)
        _OS.replace = staticmethod(rename)

        class _Environ:
            @staticmethod
            def get(k, default=None):
                return env.data_home if (k == "TRAFFIC_WEAVER_DATA" and env.env_set) else default

        class TD:
            def __init__(s, dir=None, **kw):
                s.dir = dir

            def __enter__(s):
                if not env.effect("mkdtemp"):
                    return "/nonexistent-dead"
                s.name = tempfile.mkdtemp(dir=s.dir)
                return s.name

            def __exit__(s, *exc):
                if env.frozen or not env.effect("rmtree-tmp"):
                    return False
                shutil.rmtree(s.name, ignore_errors=True)
                return False

        def urlretrieve(url, filename, *a, **kw):
            i = env.attempts
            env.attempts += 1
            if not env.effect("urlretrieve:connect"):
                return
            env.net_calls += 1
            o = int(env.attempt_outcome(i))
            if o == 1:
                raise URLError("injected")
            if o == 2:
                raise TimeoutError("injected")
            data = env.payload_bytes(env.url_of.get(url, url), int(env.payload_klass(i)))
            with real_open(filename, "wb") as f:
                f.write(data[: len(data) // 2])
            if not env.effect("urlretrieve:complete", filename):
                return
            with real_open(filename, "ab") as f:
                f.write(data[len(data) // 2:])

        class _Time:
            @staticmethod
            def sleep(s):
                env.sleeps += 1
                env.effect("sleep")

        class _Shutil:
            @staticmethod
            def rmtree(p, ignore_errors=False, **kw):
                if env.effect("rmtree", p):
                    shutil.rmtree(p, ignore_errors=ignore_errors)

        class BufferedWriter:
            """emulates a buffered file object under process kills: bytes reach the file only on close / release"""

            def __init__(s, p):
                s.f, s.buf, s.closed, s.name = real_open(p, "wb"), [], False, p
                s.owner = env.cur_tid()

            def write(s, b):
                s.buf.append(bytes(b))
                return len(b)

            def _flush(s):
                if not env.owner_dead(s.owner):
                    s.f.write(b"".join(s.buf))
                s.f.close()
                s.closed = True

            def close(s):
                if s.closed:
                    return
                if env.effect("close-flush", s.name):
                    s._flush()

            def __enter__(s):
                return s

            def __exit__(s, *a):
                s.close()
                return False

            def __del__(s):
                if not s.closed:
                    s._flush()

        def open_(p, mode="r", *a, **kw):
            if "w" in mode:
                if not env.effect("open-for-write", p):
                    return real_open(os.devnull, "wb")
                return BufferedWriter(p)
            if env.sched is not None and p in env.shared:
                env.sched.yield_point()
            return real_open(p, mode, *a, **kw)

        class _Pickle:
            load = staticmethod(pickle.load)

            @staticmethod
            def dump(obj, f, *a, **kw):
                if not env.effect("pickle.dump", getattr(f, "name", None)):
                    return
                pickle.dump(obj, f, *a, **kw)

        repl = {"os": _OS, "path": _Path, "makedirs": makedirs, "environ": _Environ, "pickle": _Pickle, "time": _Time, "shutil": _Shutil,
                "TemporaryDirectory": TD, "urlretrieve": urlretrieve, "open": open_}
        saved, missing = {}, object()
        for k, v in repl.items():
            saved[k] = base.__dict__.get(k, missing)
            setattr(base, k, v)
        try:
            yield base
        finally:
            for k, v in saved.items():
                if v is missing:
                    delattr(base, k)
                else:
                    setattr(base, k, v)


def make_env(ctx, gz=False):
    if ctx.symbolic:
        e = ModelEnv(ctx)
        e.installed = lambda: fsmodel.installed(e)
        e.checksum = lambda ds: "PINNED-" + ds
        e.cleanup = lambda: None
        e.join = e.join
        return e
    e = RealEnv(ctx)
    e.gz = gz
    e.join = os.path.join
    return e


def register(env, ds):
    from traffic_weaver.datasets._base import RemoteFileMetadata
    url = "https://example.invalid/" + ds
    env.url_of[url] = ds
    env.pinned_of[ds] = env.checksum(ds)
    return RemoteFileMetadata(filename=ds + ".csv" + (".gz" if getattr(env, "gz", False) else ""), url=url, checksum=env.checksum(ds))


def final_path(env, folder, fname):
    return env.join(env.join(env.data_home, folder), fname)


def is_verified(ctx, env, res, ds):
    if ctx.symbolic:
        return isinstance(res, fsmodel.DataArray) and res.origin == ("verified", ds)
    exp = np.loadtxt(good_bytes(ds).decode().splitlines(), delimiter=",")
    return isinstance(res, np.ndarray) and res.shape == exp.shape and bool(np.array_equal(res, exp))


def call(base, remote, fname, folder, **kw):
    """one load; returns ('ok', data) / ('raised', ExceptionTypeName) / ('killed', None)"""
    try:
        return "ok", base.load_csv_dataset_from_remote(remote=remote, dataset_filename=fname, dataset_folder=folder, **kw)
    except Killed:
        return "killed", None
    except (PathAbort,):
        raise
    except Exception as e:  # noqa: BLE001
        return "raised", type(e).__name__


def flag(ctx, v):
    """a 0/1 integer input as something the loader can test with `and` / `not`"""
    if ctx.symbolic:
        return v == 1
    return bool(v == 1)


def as_bool(ctx, f):
    return bool(f)


class Faults(Family):
    name = "fault-sequences"
    doc = "one loader: symbolic retry budget, failure pattern, payload class, flags and initial cache state"
    differential = False
    split_depth = 10

    def configs(self, tier):
        return [{"gz": gz, "n_max": n} for gz in (False, True) for n in ((3,) if tier == "quick" else (4,))]

    def run(self, ctx, inst, gz, n_max):
        env = make_env(ctx, gz)
        try:
            self.body(ctx, env, gz, n_max)
        finally:
            env.cleanup()

    def body(self, ctx, env, gz, n_max):
        ds = "dsA"
        remote = register(env, ds)
        folder, fname = "fam", "dsA-cache"
        fp = final_path(env, folder, fname)
        n_retries = ctx.int("n_retries", 0, n_max)
        outs = [ctx.int("fail%d" % i, 0, 2) for i in range(n_max + 2)]
        klass = ctx.int("payload", 0, 2)
        pre = ctx.int("cache_present", 0, 1)
        dim, dea = ctx.int("download_if_missing", 0, 1), ctx.int("download_even_if_available", 0, 1)
        with env.installed() as base:
            present = bool(flag(ctx, pre))
            if present:
                st, _ = call(base, remote, fname, folder, gzip=gz)           # fault-free warm-up fills the cache
                ctx.claim("warm-up-load-succeeds", st == "ok")
                env.restart()
            env.attempt_outcome = lambda i: outs[i] if i < len(outs) else 0
            env.payload_klass = lambda i: klass
            net0, sl0 = env.net_calls, env.sleeps
            d_im, d_ea = bool(flag(ctx, dim)), bool(flag(ctx, dea))
            nr = n_retries if ctx.symbolic else int(n_retries)
            st, res = call(base, remote, fname, folder, download_if_missing=d_im, download_even_if_available=d_ea,
                           n_retries=nr, delay=0.0, gzip=gz)
            attempted = d_im and ((not present) or d_ea)
            # oracle: K = number of leading failures
            K = 0
            while K < len(outs) and bool(outs[K] != 0):
                K += 1
            N = 0
            while N < n_max and bool(N < n_retries):
                N += 1
            info = {"attempted": attempted, "present": present, "K": K, "n_retries": N, "gz": gz}
            after = env.cache_state(fp, ds)
            ctx.claim("cache-entry-absent-or-complete-verified", after in ("absent", "complete-verified"), dict(info, state=after))
            if not attempted:
                ctx.claim("no-network-when-not-downloading", env.net_calls == net0, info)
                if present:
                    ctx.claim("cache-hit-served", st == "ok" and is_verified(ctx, env, res, ds), dict(info, st=st))
                else:
                    ctx.claim("missing-and-not-downloading-raises-OSError", (st, res) == ("raised", "OSError"), dict(info, st=st, res=str(res)))
            elif K > N:
                last = "URLError" if bool(outs[N] == 1) else "TimeoutError"
                ctx.claim("too-many-failures-propagate-the-last-error", (st, res) == ("raised", last), dict(info, st=st, res=str(res)))
                ctx.claim("failed-load-leaves-cache-as-it-was", after == ("complete-verified" if present else "absent"), dict(info, state=after))
                ctx.claim("attempts=n_retries+1", env.net_calls - net0 == N + 1, dict(info, calls=env.net_calls - net0))
            else:
                ctx.claim("attempts=failures+1", env.net_calls - net0 == K + 1 and env.sleeps - sl0 == K, dict(info, calls=env.net_calls - net0))
                if bool(klass == 0):
                    ctx.claim("failures-within-budget-absorbed", st == "ok" and is_verified(ctx, env, res, ds), dict(info, st=st, res=str(res)))
                    ctx.claim("verified-data-cached", after == "complete-verified", dict(info, state=after))
                else:
                    ctx.claim("checksum-mismatch-raises-OSError", (st, res) == ("raised", "OSError"), dict(info, st=st, res=str(res)))
                    ctx.claim("unverified-data-never-cached", after == ("complete-verified" if present else "absent"), dict(info, state=after))
            # a later fault-free load succeeds and returns exactly the verified data
            env.restart()
            st2, res2 = call(base, remote, fname, folder, gzip=gz)
            ctx.claim("later-load-succeeds-with-verified-data", st2 == "ok" and is_verified(ctx, env, res2, ds), dict(info, st2=st2))
            ctx.claim("cache-complete-after-later-load", env.cache_state(fp, ds) == "complete-verified", info)
            if ctx.symbolic:
                ok = all(p.startswith(env.data_home + "/") or p == env.data_home for p in list(env.files) + [d for d in env.dirs if d != "/"])
                ctx.claim("everything-lives-under-TRAFFIC_WEAVER_DATA", ok, {"paths": sorted(env.files)[:4]})
            else:
                ctx.claim("everything-lives-under-TRAFFIC_WEAVER_DATA", os.path.isdir(os.path.join(env.data_home, folder)))


class Unpack(Family):
    name = "unpack-and-flags-pass-through"
    doc = "unpack_dataset_columns returns the two columns of exactly the verified data, from a download and from a cache hit"
    differential = False

    def configs(self, tier):
        return [{"gz": gz} for gz in (False, True)]

    def run(self, ctx, inst, gz):
        env = make_env(ctx, gz)
        try:
            ds = "dsA"
            remote = register(env, ds)
            with env.installed() as base:
                for which in ("download", "cache-hit"):
                    env.restart()
                    st, res = call(base, remote, "c", "fam", gzip=gz, unpack_dataset_columns=True)
                    ok = st == "ok" and isinstance(res, tuple) and len(res) == 2
                    ctx.claim("unpack:returns-two-columns", ok, {"which": which, "st": st})
                    if ok:
                        full = call(base, remote, "c", "fam", gzip=gz)[1]
                        ctx.claim("unpack:columns-of-the-verified-data", is_verified(ctx, env, full, ds) and
                                  bool(np.array_equal(np.asarray(res[0]), np.asarray(full)[:, 0])) and
                                  bool(np.array_equal(np.asarray(res[1]), np.asarray(full)[:, 1])), {"which": which})
        finally:
            env.cleanup()


class DataHome(Family):
    name = "data-home-follows-the-environment"
    doc = "the cache lives under the directory TRAFFIC_WEAVER_DATA names AT THE TIME OF THE CALL (two homes in one process)"
    differential = False

    def configs(self, tier):
        return [{"first": f} for f in ("unset", "A")]

    def run(self, ctx, inst, first):
        env = make_env(ctx)
        try:
            remA, remB = register(env, "dsA"), register(env, "dsB")
            home_a = "/HOME-A" if ctx.symbolic else os.path.join(env.root, "home-a")
            home_b = "/HOME-B" if ctx.symbolic else os.path.join(env.root, "home-b")

            def listing():
                if ctx.symbolic:
                    return set(env.files) | set(env.dirs)
                return {os.path.join(d, f) for d, _, fs in os.walk(env.root) for f in fs}

            with env.installed() as base:
                if first == "unset":
                    env.env_set = False
                else:
                    env.data_home = home_a
                h1 = base.get_data_home()
                st, _ = call(base, remA, "cache-A", "fam")
                ctx.claim("first-load-succeeds", st == "ok")
                before = listing()
                env.env_set, env.data_home = True, home_b
                env.restart()
                h2 = base.get_data_home()
                st, res = call(base, remB, "cache-B", "fam")
                new = listing() - before
                ctx.claim("get_data_home-follows-the-variable", h2 == home_b and h1 != h2, {"h1": h1, "h2": h2})
                ctx.claim("second-load-lives-under-the-second-home", st == "ok" and bool(new) and all(p.startswith(home_b) for p in new),
                          {"new": sorted(new)[:4]})
        finally:
            env.cleanup()


class Kills(Family):
    name = "kill-at-every-step"
    doc = "one loader killed before an arbitrary (symbolic) step; then a new process loads again"
    differential = False

    def configs(self, tier):
        return [{"gz": gz, "present": p, "dea": d, "fail_first": f} for gz in (False, True) for p in (False, True)
                for d in (False, True) for f in (False, True) if (p or not d)]

    def run(self, ctx, inst, gz, present, dea, fail_first):
        env = make_env(ctx, gz)
        try:
            ds = "dsA"
            remote = register(env, ds)
            folder, fname = "fam", "dsA-cache"
            fp = final_path(env, folder, fname)
            with env.installed() as base:
                if present:
                    call(base, remote, fname, folder, gzip=gz)
                    env.restart()
                k = ctx.int("kill_at", 1, 14)
                env.kill_at = k
                if fail_first:
                    env.attempt_outcome = lambda i: 1 if i == 0 else 0
                st, res = call(base, remote, fname, folder, download_even_if_available=dea, delay=0.0, gzip=gz)
                steps = env.step
                info = {"present": present, "dea": dea, "st": st, "steps_executed": steps}
                ctx.claim("kill-reaches-a-step-or-run-completes", st in ("killed", "ok"), info)
                after = env.cache_state(fp, ds)
                ctx.claim("after-kill:cache-absent-or-complete-verified", after in ("absent", "complete-verified"), dict(info, state=after))
                if present:
                    ctx.claim("after-kill:previous-verified-copy-kept-or-replaced-by-verified", after == "complete-verified", dict(info, state=after))
                if st == "ok":
                    ctx.claim("completed-run-returns-verified-data", is_verified(ctx, env, res, ds), info)
                env.restart()
                st2, res2 = call(base, remote, fname, folder, gzip=gz)
                ctx.claim("after-kill:later-load-succeeds-with-verified-data", st2 == "ok" and is_verified(ctx, env, res2, ds), dict(info, st2=st2, res2=str(res2)[:60]))
                ctx.claim("after-kill:cache-complete-after-later-load", env.cache_state(fp, ds) == "complete-verified", info)
        finally:
            env.cleanup()


class TwoDatasets(Family):
    name = "two-datasets-orderings"
    doc = "what is returned for one dataset never depends on loads (incl. failed ones) of another"
    differential = False

    def configs(self, tier):
        out = [{"mode": "synthetic", "order": o, "fail_b": f} for o in ("AB", "BA", "ABA", "BAB") for f in (False, True)]
        out += [{"mode": "real-loaders", "pair": p} for p in (("fetch_ams_ix_grx_weekly", "fetch_ams_ix_grx_monthly"),
                                                              ("fetch_ams_ix_weekly", "fetch_ams_ix_isp_weekly"),
                                                              ("fetch_mix_it_milan_daily", "fetch_mix_it_bologna_daily"),
                                                              ("fetch_ix_br_aggregated_daily", "fetch_ams_ix_daily"))]
        return out

    def run(self, ctx, inst, mode, **kw):
        env = make_env(ctx)
        try:
            if mode == "synthetic":
                self.synthetic(ctx, env, **kw)
            else:
                self.real_loaders(ctx, env, **kw)
        finally:
            env.cleanup()

    def synthetic(self, ctx, env, order, fail_b):
        rem = {"A": register(env, "dsA"), "B": register(env, "dsB")}
        kb = ctx.int("payload_b", 0, 2) if fail_b else 0
        with env.installed() as base:
            for i, which in enumerate(order):
                env.restart()
                if which == "B":
                    env.payload_klass = lambda j: kb
                st, res = call(base, rem[which], "cache-" + which, "fam", delay=0.0)
                if which == "A":
                    ctx.claim("A-unaffected-by-loads-of-B", st == "ok" and is_verified(ctx, env, res, "dsA"), {"order": order, "i": i, "st": st})
                elif st == "ok":
                    ctx.claim("B-returns-its-own-verified-data", is_verified(ctx, env, res, "dsB"), {"order": order, "i": i})
            ctx.claim("A-cache-holds-A", env.cache_state(final_path(env, "fam", "cache-A"), "dsA") == "complete-verified")

    def real_loaders(self, ctx, env, pair):
        """the package's own fetch_* functions through the file-system model: each returns its own download"""
        mods = {}
        for m in ("_ams_ix", "_ix_br", "_mix_it"):
            mod = importlib.import_module("traffic_weaver.datasets." + m)
            for a in dir(mod):
                if a.startswith("fetch_"):
                    mods[a] = mod
        if not ctx.symbolic:
            ctx.claim("each-loader-returns-its-own-dataset", True)      # needs the network: model-only family
            return
        with env.installed() as base:
            seen = {}
            for which in (pair[0], pair[1], pair[0]):
                env.restart()
                mod = mods[which]
                saved = mod.load_csv_dataset_from_remote
                mod.load_csv_dataset_from_remote = base.load_csv_dataset_from_remote
                try:
                    res = getattr(mod, which)()
                finally:
                    mod.load_csv_dataset_from_remote = saved
                # the model tags data with the URL it was downloaded from (unregistered URLs are their own dataset id)
                ctx.claim("each-loader-returns-its-own-dataset", isinstance(res, fsmodel.DataArray) and res.origin[0] == "verified"
                          and seen.setdefault(which, res.origin) == res.origin and
                          all(o != res.origin for w, o in seen.items() if w != which), {"loader": which, "origin": str(res.origin)})


def shared_paths(ctx, n, present):
    """paths touched by at least two of n loaders run one after the other (dry run on a fresh environment)"""
    env = make_env(ctx)
    try:
        remote = register(env, "dsA")
        touched = []
        with env.installed() as base:
            if not ctx.symbolic:
                return set()
            if present:
                call(base, remote, "dsA-cache", "fam")
                env.restart()
            for i in range(n):
                start = len(env.access)
                env.restart()
                # every loader starts from the same situation (cache absent or present): forget what the previous did
                call(base, remote, "dsA-cache", "fam", download_even_if_available=not present and i > 0)
                touched.append({p for p in env.access[start:] if p})
        shared = set()
        for i in range(len(touched)):
            for j in range(i + 1, len(touched)):
                shared |= touched[i] & touched[j]
        return {p for p in shared if not p.endswith("/tmp-private")}
    finally:
        env.cleanup()


class Concurrent(Family):
    name = "concurrent-loaders"
    doc = "n loaders of the same dataset, every interleaving of the calls that touch the shared cache path"
    differential = False
    split_depth = 6

    def configs(self, tier):
        return [{"n": n, "present": p} for n in ((2,) if tier == "quick" else (2, 3)) for p in (False, True) if not (n == 3 and p)]

    def run(self, ctx, inst, n, present):
        env = make_env(ctx)
        try:
            ds = "dsA"
            remote = register(env, ds)
            folder, fname = "fam", "dsA-cache"
            fp = final_path(env, folder, fname)
            with env.installed() as base:
                if present:
                    call(base, remote, fname, folder)
                    env.restart()
                # scheduling points: every path that more than one loader touches (found by a sequential dry run on a
                # scratch copy of the model / directory), not just the final cache path
                env.shared = shared_paths(ctx, n, present) | {fp}
                picks = []

                def choose(alive):
                    if len(alive) == 1:
                        return alive[0]
                    v = ctx.int("sched%d" % len(picks), 0, n - 1)
                    picks.append(v)
                    for t in alive[:-1]:
                        if bool(v == t):
                            return t
                    ctx.assume(v == alive[-1])
                    return alive[-1]

                sch = Scheduler(choose)
                env.sched = sch
                try:
                    results, errors = sch.run([lambda: base.load_csv_dataset_from_remote(
                        remote=remote, dataset_filename=fname, dataset_folder=folder, delay=0.0,
                        download_even_if_available=False) for _ in range(n)])
                finally:
                    env.sched = None
                info = {"n": n, "present": present, "errors": {k: type(e).__name__ + ":" + str(e)[:80] for k, e in errors.items()}}
                ctx.claim("no-loader-fails-or-sees-a-partial-file", not errors, info)
                for i, r in results.items():
                    ctx.claim("every-loader-returns-verified-data", is_verified(ctx, env, r, ds), dict(info, i=i))
                ctx.claim("cache-complete-verified-afterwards", env.cache_state(fp, ds) == "complete-verified", info)
        finally:
            env.cleanup()


class Refresh(Family):
    name = "refresh-replaces-the-entry"
    doc = ("download_even_if_available on an entry that differs from what is pinned now (the dataset was re-published under a new "
           "checksum, or the cache file was cut short): what the refresh returns is what the cache holds afterwards; a kill "
           "before a symbolic step leaves the old entry or the new one, never a mixture")
    differential = False

    def configs(self, tier):
        return [{"gz": gz, "old": old, "kill": k} for gz in (False, True) for old in ("older-version", "damaged", "same") for k in (False, True)]

    def run(self, ctx, inst, gz, old, kill):
        env = make_env(ctx, gz)
        try:
            folder, fname = "fam", "ds-cache"
            fp = final_path(env, folder, fname)
            v1 = register(env, "dsV1")
            v2 = v1 if old == "same" else register(env, "dsV2")
            new_ds = "dsV1" if old == "same" else "dsV2"
            with env.installed() as base:
                st0, _ = call(base, v1, fname, folder, gzip=gz)
                ctx.claim("warm-up-load-succeeds", st0 == "ok")
                if old == "damaged":
                    env.damage(fp)
                env.restart()
                if kill:
                    env.kill_at = ctx.int("kill_at", 1, 14)
                st, res = call(base, v2, fname, folder, download_even_if_available=True, delay=0.0, gzip=gz)
                info = {"old": old, "st": st, "gz": gz, "steps": env.step}
                after_new, after_old = env.cache_state(fp, new_ds), env.cache_state(fp, "dsV1")
                if st == "ok":
                    ctx.claim("refresh-returns-the-newly-verified-data", is_verified(ctx, env, res, new_ds), info)
                    ctx.claim("refresh-stores-what-it-returned", after_new == "complete-verified", dict(info, state=after_new))
                else:
                    ctx.claim("kill-reaches-a-step-or-run-completes", kill and st == "killed", info)
                    if old != "damaged":
                        ctx.claim("after-kill:old-entry-or-new-entry", "complete-verified" in (after_new, after_old),
                                  dict(info, state=after_new, state_old=after_old))
                env.restart()
                if st == "ok" or old != "damaged":
                    st2, res2 = call(base, v2, fname, folder, gzip=gz)
                    ok2 = st2 == "ok" and (is_verified(ctx, env, res2, new_ds) or (st != "ok" and is_verified(ctx, env, res2, "dsV1")))
                    ctx.claim("later-load-returns-a-verified-entry", ok2, dict(info, st2=st2))
                    if st == "ok":
                        ctx.claim("later-load-returns-what-the-refresh-returned", st2 == "ok" and is_verified(ctx, env, res2, new_ds), dict(info, st2=st2))
        finally:
            env.cleanup()


class ConcurrentKill(Family):
    name = "concurrent-loaders-one-killed"
    doc = ("two loaders of the same dataset under every interleaving of the calls that touch shared paths, while loader 0 is "
           "killed before an arbitrary (symbolic) one of its own effectful calls; then a new process loads again")
    differential = False
    split_depth = 6

    def configs(self, tier):
        return [{"present": p, "dea": d} for p in (False, True) for d in ((False,) if tier == "quick" else (False, True)) if (p or not d)]

    def run(self, ctx, inst, present, dea):
        env = make_env(ctx)
        try:
            ds = "dsA"
            remote = register(env, ds)
            folder, fname = "fam", "dsA-cache"
            fp = final_path(env, folder, fname)
            n = 2
            with env.installed() as base:
                if present:
                    call(base, remote, fname, folder)
                    env.restart()
                shared = shared_paths(ctx, n, present) | {fp}
                env.shared = shared
                k = ctx.int("kill_loader0_before_its_call", 1, 14)
                env.kill_tid, env.kill_at_t = 0, k
                picks = []

                def choose(alive):
                    if len(alive) == 1:
                        return alive[0]
                    v = ctx.int("sched%d" % len(picks), 0, n - 1)
                    picks.append(v)
                    for t in alive[:-1]:
                        if bool(v == t):
                            return t
                    ctx.assume(v == alive[-1])
                    return alive[-1]

                sch = Scheduler(choose)
                env.sched = sch
                try:
                    results, errors = sch.run([lambda: base.load_csv_dataset_from_remote(
                        remote=remote, dataset_filename=fname, dataset_folder=folder, delay=0.0,
                        download_even_if_available=dea) for _ in range(n)])
                finally:
                    env.sched = None
                killed = 0 in env.dead
                info = {"present": present, "dea": dea, "loader0_killed": killed, "loader0_calls": env.tstep.get(0),
                        "errors": {i: type(e).__name__ + ":" + str(e)[:80] for i, e in errors.items()}}
                ctx.claim("killed-loader-stops-and-only-it", (set(errors) == {0} and isinstance(errors[0], Killed)) if killed else not errors, info)
                ctx.claim("surviving-loader-returns-verified-data", 1 in results and is_verified(ctx, env, results[1], ds), info)
                if not killed:
                    ctx.claim("every-loader-returns-verified-data", 0 in results and is_verified(ctx, env, results[0], ds), info)
                after = env.cache_state(fp, ds)
                ctx.claim("after-kill:cache-complete-verified", after == "complete-verified", dict(info, state=after))
                del results, errors
                env.restart()
                env.shared = set()
                n0 = env.net_calls
                st2, res2 = call(base, remote, fname, folder)
                ctx.claim("after-kill:later-load-succeeds-with-verified-data", st2 == "ok" and is_verified(ctx, env, res2, ds), dict(info, st2=st2))
                ctx.claim("after-kill:later-load-needs-no-network", env.net_calls == n0, dict(info, net=env.net_calls - n0))
        finally:
            env.cleanup()


META = {
    "explanation": "The real load_csv_dataset_from_remote / _fetch_remote / _sha256 (and, in one family, the package's own "
                   "fetch_* functions) run against an in-memory file system installed in datasets/_base.py's namespace. "
                   "Every effectful call is a step; the fault oracle consists of solver variables: retry budget "
                   "n_retries (symbolic integer handed to the real retry loop), per-attempt outcome (ok / URLError / "
                   "TimeoutError), payload class (pinned / corrupted / truncated; the checksum comparison is a symbolic "
                   "boolean tied to the class), the flags, the initial cache state, the step before which the process "
                   "is killed (a kill freezes the file system, so TemporaryDirectory clean-up of the dying run has no "
                   "effect; download and pickle writing are two steps each, exposing partial files), and for concurrency "
                   "which loader runs next at every call that touches a shared path (loaders are real "
                   "invocations in threads passing a baton; in one family one of the loaders is additionally killed before a symbolic one "
                   "of its own calls - its later calls have no effect, what it buffered is lost - while the other goes on). The explorer forks on these variables exactly as on numeric "
                   "comparisons. Counterexamples are replayed on a real temporary directory with the same step "
                   "discipline (real pickle, real sha256, real os.rename, real np.loadtxt, gzip).",
    "bounds": {"quick": "n_retries in 0..3 with 5 attempt outcomes, kill before any of the <= 14 steps (also after a failed first attempt), plain and gzip, "
                        "2 concurrent loaders, 2 concurrent loaders of which one is killed before any of its own <= 14 effectful calls (every interleaving), "
                        "refresh of an entry that is an older version / cut short / identical (with and without a kill), "
                        "orderings AB/BA/ABA/BAB of two datasets, 4 pairs of real loaders",
               "thorough": "n_retries in 0..4 with 6 attempt outcomes, 3 concurrent loaders; one-killed also with download_even_if_available"},
    "outside": ["4..16 concurrent loaders", "kill granularity finer than call boundaries + the two partial-write points",
                "more than one loader killed, a kill combined with 3+ loaders", "real sockets / disks / processes (kill = frozen file system)",
                "all 76x76 orderings of the real loaders (4 pairs are run; pairwise-distinct cache slots for all are "
                "established in C18)"],
    "assumptions": ["SHA-256 collision freedom: digest == pinned iff the payload is the pinned file",
                    "os.rename within one directory is atomic (POSIX)",
                    "file writes are buffered: they reach the file when the writer is closed or, for a temporary that is "
                    "not bound to a name, when CPython releases it on return of the call (reference counting)",
                    "TemporaryDirectory names are unique"],
    "stubs": ["os / os.path / tempfile / urllib.request.urlretrieve / open / hashlib / pickle / gzip / numpy.loadtxt / "
              "time.sleep / os.environ as seen from datasets/_base.py (file-system model)"],
}

if __name__ == "__main__":
    ap = argparse.ArgumentParser()
    ap.add_argument("--tier", default="quick")
    a = ap.parse_args()
    sys.exit(run_check("C19", "remote cache", [Faults(), Unpack(), DataHome(), Kills(), TwoDatasets(), Concurrent(), ConcurrentKill(), Refresh()], a.tier, META))
