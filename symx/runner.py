"""Check runner: fans (family, config) tasks over processes, replays candidates against the plain
float64 code, compares with known findings, writes evidence, prints the verdict lines."""
from __future__ import annotations

import json
import multiprocessing as mp
import os
import random
import sys
import time
import traceback
from fractions import Fraction

import numpy as np

from . import core
from .core import (Explorer, Ctx, ConcreteCtx, PathAbort, NonFinite, HarnessError, SubtreeCut, Sym, SymBool, Not, And, Or,
                   mk_atom, p_scale, p_add, p_const)
from .npx import interposed, symarray, load_tw

VERIF = os.path.dirname(os.path.dirname(os.path.abspath(__file__)))
REPO_SRC = os.environ.get("VERIF_REPO_SRC") or "/repo/src"


class Family:
    """One harness: `run(ctx, inst, **cfg)`; `configs(tier)` yields cfg dicts (concrete bounds)."""
    name = "?"
    doc = ""
    nonfinite_is_violation = True
    query_timeout_ms = 20000
    max_paths = None
    split_depth = None   # if set: paths are cut after this many decisions and the subtrees become separate tasks

    def configs(self, tier):
        return [{}]

    def run(self, ctx, inst, **cfg):
        raise NotImplementedError


# ------------------------------------------------------------------ helpers available to harnesses

def arr(ctx, vals):
    """1-D array of harness values: object array of Syms (symbolic) / float64 (concrete)."""
    if ctx.symbolic:
        return symarray(list(vals))
    return np.array([float(v) for v in vals], dtype=np.float64)


def frac_grid(vals):
    """concrete abscissae: exact in both modes"""
    return [Fraction(v) for v in vals]


def increasing(ctx, xs):
    for a, b in zip(xs, xs[1:]):
        ctx.assume(ctx.lt(a, b))


# ------------------------------------------------------------------ wrapped execution of one path

class UnexpectedException(Exception):
    pass


def _run_wrapped(fam, ctx, cfg):
    """Run the harness; an exception escaping the code under test becomes a failed claim."""
    try:
        if ctx.symbolic:
            with interposed() as inst:
                fam.run(ctx, inst, **cfg)
        else:
            fam.run(ctx, None, **cfg)
    except (PathAbort, NonFinite, HarnessError, SubtreeCut):
        raise
    except ZeroDivisionError as e:
        if ctx.symbolic:
            raise NonFinite("ZeroDivisionError: %s" % e)
        ctx.claim("finite-values: ZeroDivisionError", False, None)
    except Exception as e:  # noqa: BLE001  (BaseException-derived steering exceptions pass through)
        tb = traceback.extract_tb(e.__traceback__)
        where = ""
        for fr in reversed(tb):
            if "traffic_weaver" in fr.filename:
                where = "%s:%d" % (os.path.basename(fr.filename), fr.lineno)
                break
        ctx.claim("no-unexpected-exception:%s" % type(e).__name__, False, {"exc": repr(e)[:200], "where": where})


# ------------------------------------------------------------------ functions-entered tracing

_ENTERED = set()


def _trace_on():
    mon = sys.monitoring
    tid = 3
    try:
        mon.use_tool_id(tid, "symx")
    except ValueError:
        return

    def on_start(code, off):
        fn = code.co_filename
        if fn.startswith(REPO_SRC):
            _ENTERED.add("%s:%s" % (os.path.relpath(fn, REPO_SRC), code.co_qualname))
        return mon.DISABLE

    mon.register_callback(tid, mon.events.PY_START, on_start)
    mon.set_events(tid, mon.events.PY_START)


# ------------------------------------------------------------------ worker

def _margin_neg(cond, m=Fraction(1, 64)):
    """A stronger form of `not cond` that asks for a visible violation (nicer replay models)."""
    if isinstance(cond, SymBool) and cond.kind == "atom":
        d, op = cond.args
        if op == "==":
            return Or(mk_atom(p_add(p_const(m), d, -1), "<="), mk_atom(p_add(d, p_const(-m), -1), "<="))
        if op in ("<=", "<"):  # violated when d > 0: ask for d >= m
            return mk_atom(p_add(p_const(m), d, -1), "<=")
    return None


def _task(args):
    fam, cfg, tier, deadline, idx = args[:5]
    root = args[5] if len(args) > 5 else None
    load_tw()
    _trace_on()
    t0 = time.time()
    ex = Explorer(query_timeout_ms=fam.query_timeout_ms, max_paths=fam.max_paths, deadline=deadline)
    ex.nonfinite_is_violation = fam.nonfinite_is_violation
    ex.margin_fn = _margin_neg
    if root is None and fam.split_depth:
        ex.collect_depth = fam.split_depth
    err = None
    try:
        ex.run(lambda ctx: _run_wrapped(fam, ctx, cfg), root=root)
    except HarnessError as e:
        err = "HarnessError: %s" % e
    except Exception as e:  # noqa: BLE001
        err = "harness crashed: %s\n%s" % (e, traceback.format_exc()[-1500:])
    cands = [(n, {k: str(v) for k, v in m.items()}, d, info) for (n, m, d, info) in ex.candidates[:20]]
    return {
        "family": fam.name, "cfg": cfg, "idx": idx, "stats": ex.stats.as_dict(), "candidates": cands,
        "n_candidates": len(ex.candidates), "inconclusive": [(n, len(d)) for n, d in ex.inconclusive[:10]],
        "n_inconclusive": len(ex.inconclusive),
        "samples": ex.samples[:2], "truncated": ex.truncated or ex.int_cases_cut > 0, "error": err, "entered": sorted(_ENTERED),
        "reached": sorted(ex.reached), "wall": time.time() - t0, "roots": ex.roots, "is_subtree": root is not None,
    }


# ------------------------------------------------------------------ concrete replay

def replay_concrete(fam, cfg, model):
    """Run the harness on plain float64 against the unmodified code.  Returns failed claim names."""
    m = {k: float(Fraction(v)) for k, v in model.items()}
    ctx = ConcreteCtx(m)
    old = np.seterr(all="ignore")
    try:
        import warnings
        with warnings.catch_warnings():
            warnings.simplefilter("ignore")
            try:
                _run_wrapped(fam, ctx, cfg)
            except PathAbort:
                return None, ctx
            except NonFinite as e:
                ctx.claim("finite-values: " + e.what, False)
    finally:
        np.seterr(**old)
    failed = [n for n, ok, _ in ctx.claims if not ok]
    return failed, ctx


class PinnedCtx(Ctx):
    """Symbolic machinery on constant inputs: used to validate the interposer against float NumPy."""

    def __init__(self, explorer, model):
        super().__init__(explorer, [])
        self._model = model

    def real(self, name):
        # an input the dry run did not discover (it ended early) is 0 here, exactly as in the float run (ConcreteCtx.real)
        v = Sym(p_const(Fraction(self._model.get(name, 0))))
        self.input_vars[name] = v
        return v


def differential(fam, cfg, seed, n=2):
    """Translator validation: same harness, float64 NumPy vs the interposed exact run on the same
    (random dyadic) inputs; the claim verdicts and the noted outputs must agree."""
    rnd = random.Random(seed)
    done, problems = 0, []
    for _ in range(n * 6):
        if done >= n:
            break
        # discover input names with a throw-away run
        names = _input_names(fam, cfg)
        model = {}
        for nm in names:
            model[nm] = Fraction(rnd.randint(-64, 64), 8)
        # increasing helpers: inputs whose name starts with 'x' are sorted to keep assumptions satisfiable
        xs = sorted(k for k in model if k.startswith("x") and k[1:].isdigit())
        if xs:
            vals = sorted(rnd.sample(range(-40, 41), len(xs)))
            for k, v in zip(sorted(xs, key=lambda s: int(s[1:])), vals):
                model[k] = Fraction(v, 4)
        failed_c, cctx = replay_concrete(fam, cfg, model)
        if failed_c is None:
            continue
        ex = Explorer()
        pctx = PinnedCtx(ex, model)
        prev = core.CUR
        core.CUR = pctx
        sym_claims = {}
        try:
            try:
                _run_wrapped(fam, pctx, cfg)
            except (PathAbort, NonFinite):
                continue
            done += 1
            for nme, cond, _ in pctx.claims:
                if isinstance(cond, SymBool):
                    ok = (pctx.check(Not(cond)) == "unsat")
                else:
                    ok = bool(cond)
                sym_claims[nme] = sym_claims.get(nme, True) and ok
        finally:
            core.CUR = prev
        con_claims = {}
        for nme, ok, _ in cctx.claims:
            con_claims.setdefault(nme, True)
            con_claims[nme] = con_claims[nme] and ok
        # claims a harness makes in one mode only (e.g. about recorded stub calls) are not comparable;
        # escaped exceptions and non-finite outcomes always are
        special = lambda k: k.startswith("no-unexpected-exception") or k.startswith("finite-values")
        keys = {k for k in set(sym_claims) | set(con_claims) if special(k) or (k in sym_claims and k in con_claims)}
        if any(sym_claims.get(k) != con_claims.get(k) for k in keys):
            diff = {k: (sym_claims.get(k), con_claims.get(k)) for k in keys
                    if sym_claims.get(k) != con_claims.get(k)}
            problems.append({"cfg": cfg, "model": {k: str(v) for k, v in model.items()}, "claims(sym,float)": diff})
        vals = None
        for k, v in pctx.notes.items():
            w = cctx.notes.get(k)
            if w is None:
                continue
            va = []
            for t in np.asarray(v, dtype=object).reshape(-1):
                if not isinstance(t, Sym):
                    va.append(float(t))
                elif t.is_const():
                    va.append(float(t.const()))
                else:
                    # purified (irrational) value: evaluate the polynomial in a model of the pinned path
                    if vals is None:
                        core.CUR = pctx
                        try:
                            vals = list(pctx.model_all().values()) if pctx.check(core.z3.BoolVal(True)) == "sat" else []
                        finally:
                            core.CUR = prev
                    if not vals:
                        va.append(None)
                        continue
                    tot = 0.0
                    for mono, c in t.p.items():
                        term = float(c)
                        for i in mono:
                            term *= float(vals[i])
                        tot += term
                    va.append(tot)
            wa = [float(t) for t in np.asarray(w, dtype=float).reshape(-1)]
            if len(va) != len(wa) or any(a is None or abs(a - b) > 1e-7 * max(1, abs(a), abs(b)) for a, b in zip(va, wa)):
                problems.append({"cfg": cfg, "note": k, "sym": va[:8], "float": wa[:8]})
    return done, problems


_NAMES_CACHE = {}


def _input_names(fam, cfg):
    key = (fam.name, json.dumps(cfg, sort_keys=True, default=str))
    if key in _NAMES_CACHE:
        return _NAMES_CACHE[key]
    class _Discover(ConcreteCtx):
        def real(self, name):
            self.missing.append(name)
            return 0.37 * len(self.missing) + 0.11

        def assume(self, cond):
            return None

    ctx = _Discover({})
    old = np.seterr(all="ignore")
    try:
        import warnings
        with warnings.catch_warnings():
            warnings.simplefilter("ignore")
            try:
                _run_wrapped(fam, ctx, cfg)
            except BaseException:  # noqa: BLE001
                pass
    finally:
        np.seterr(**old)
    _NAMES_CACHE[key] = list(ctx.missing)
    return _NAMES_CACHE[key]


# ------------------------------------------------------------------ known findings

def load_known():
    p = os.path.join(VERIF, "known_findings.json")
    if not os.path.exists(p):
        return []
    return json.load(open(p)).get("findings", [])


def match_known(known, prop, fam, claim, info):
    for k in known:
        if k.get("status") != "open" or k.get("property") != prop:
            continue
        m = k.get("match", {})
        if m.get("family") and m["family"] != fam:
            continue
        if m.get("claim_prefix") and not claim.startswith(m["claim_prefix"]):
            continue
        if m.get("where") and (not info or info.get("where") != m["where"]):
            continue
        return k
    return None


# ------------------------------------------------------------------ main entry

def run_check(prop, title, families, tier, meta):
    """meta: dict(bounds=..., outside=..., assumptions=[...], stubs=[...], explanation=...)"""
    t0 = time.time()
    seed = int(os.environ.get("VERIF_SEED", "0") or 0)
    budget = meta.get("budget_s", {"quick": 170, "thorough": 1500})[tier]
    deadline = t0 + budget
    load_tw()
    tasks = []
    for fam in families:
        for cfg in fam.configs(tier):
            tasks.append((fam, cfg, tier, deadline, len(tasks)))
    nproc = min(int(os.environ.get("VERIF_JOBS", "16")), max(1, len(tasks)))
    results = []
    lost_tasks = 0
    nproc = int(os.environ.get("VERIF_JOBS", "16"))
    if nproc > 1:
        ctxm = mp.get_context("fork")
        with ctxm.Pool(nproc, maxtasksperchild=int(os.environ.get("VERIF_TASKS_PER_CHILD", "200"))) as pool:
            # heavy (split) families first so that their subtrees can be queued early
            order = sorted(tasks, key=lambda t: 0 if t[0].split_depth else 1)
            pending = [pool.apply_async(_task, (t,)) for t in order]
            while pending:
                nxt = []
                for p in pending:
                    if p.ready():
                        r = p.get()
                        results.append(r)
                        for root in r["roots"]:
                            fam_, cfg_ = tasks[r["idx"]][0], tasks[r["idx"]][1]
                            nxt.append(pool.apply_async(_task, ((fam_, cfg_, tier, deadline, r["idx"], root),)))
                    else:
                        nxt.append(p)
                pending = nxt
                if pending and time.time() > deadline + int(os.environ.get("VERIF_LOST_GRACE", "420")):
                    # every task watches the deadline itself; one that has not returned by now never will (a worker
                    # process that died - e.g. a crash inside the solver - loses its task in multiprocessing.Pool)
                    lost_tasks = len(pending)
                    pool.terminate()
                    break
                if pending:
                    time.sleep(0.05)
    else:
        queue = list(tasks)
        while queue:
            t = queue.pop()
            r = _task(t)
            results.append(r)
            for root in r["roots"]:
                queue.append((t[0], t[1], tier, deadline, r["idx"], root))
    results.sort(key=lambda r: r["idx"])
    fam_by_name = {f.name: f for f in families}

    # translator validation of the interposer on a few configs per family
    tv_done, tv_problems = 0, []
    per_fam_seen = {}
    for (fam, cfg, *_r) in tasks:
        if per_fam_seen.get(fam.name, 0) >= (2 if tier == "quick" else 4) or not getattr(fam, "differential", True):
            continue
        per_fam_seen[fam.name] = per_fam_seen.get(fam.name, 0) + 1
        try:
            d, probs = differential(fam, cfg, seed + tv_done)
        except HarnessError as e:
            d, probs = 0, [{"cfg": cfg, "error": str(e)}]
        tv_done += d
        tv_problems.extend(probs)

    known = load_known()
    total = core.Stats()
    entered = set()
    errors, violations, known_hits, unreplayed, inconcl, truncated = [], [], [], [], [], []
    fam_summary = {}
    samples = []
    os.makedirs(os.path.join(VERIF, "replays"), exist_ok=True)
    for old in os.listdir(os.path.join(VERIF, "replays")):        # replays of earlier runs of this check are stale
        if old.startswith(prop + "_"):
            os.remove(os.path.join(VERIF, "replays", old))
    n_replayed = 0
    if lost_tasks:
        errors.append(("(pool)", {}, "%d task(s) never returned (worker process died or hung); no verdict for them" % lost_tasks))
    for r in results:
        st = core.Stats()
        st.__dict__.update(r["stats"])
        total.merge(st)
        entered.update(r["entered"])
        fs = fam_summary.setdefault(r["family"], {"configs": 0, "paths": 0, "obligations": 0, "discharged": 0,
                                                   "sat": 0, "inconclusive": 0, "wall_s": 0.0, "claims": set()})
        fs["configs"] += 0 if r["is_subtree"] else 1
        fs["paths"] += r["stats"]["paths"]
        fs["obligations"] += r["stats"]["obligations"]
        fs["discharged"] += r["stats"]["discharged"]
        fs["sat"] += r["stats"]["sat"]
        fs["inconclusive"] += r["stats"]["inconclusive"]
        fs["wall_s"] += r["wall"]
        fs["claims"].update(r["reached"])
        if os.environ.get("VERIF_SLOW") and r["wall"] > float(os.environ["VERIF_SLOW"]):
            print("SLOW-TASK %.0fs paths=%d %s %s" % (r["wall"], r["stats"]["paths"], r["family"], r["cfg"]))
        if r["error"]:
            errors.append((r["family"], r["cfg"], r["error"]))
        if r["truncated"]:
            truncated.append((r["family"], r["cfg"]))
        for n, cnt in r["inconclusive"]:
            inconcl.append((r["family"], r["cfg"], n))
        if r["samples"] and len(samples) < 6:
            samples.append({"family": r["family"], "config": r["cfg"], **r["samples"][0]})
        fam = fam_by_name[r["family"]]
        seen_claims = set()
        for (claim, model, decisions, info) in r["candidates"]:
            if claim in seen_claims and len(seen_claims) > 0 and n_replayed > 60:
                continue
            n_replayed += 1
            failed, cctx = replay_concrete(fam, r["cfg"], model)
            reproduced = bool(failed) and (claim in failed or any(f.split(":")[0] == claim.split(":")[0] for f in failed)
                                           # a predicted inf/NaN reproduces when any claim fails on that concrete input
                                           or claim.startswith("finite-values"))
            rec = {"property": prop, "module": type(fam).__module__, "family_class": type(fam).__name__,
                   "family": r["family"], "config": r["cfg"], "claim": claim, "model": model,
                   "info": info, "replay_failed_claims": failed}
            if reproduced:
                kf = match_known(known, prop, r["family"], claim, info)
                if kf:
                    if (kf["id"], claim) not in [(k["id"], c) for k, c in known_hits]:
                        known_hits.append((kf, claim))
                    continue
                if claim in seen_claims:
                    continue
                seen_claims.add(claim)
                path = os.path.join(VERIF, "replays", "%s_%s_%d.json" % (prop, r["family"], len(violations)))
                json.dump(rec, open(path, "w"), indent=1, default=str)
                violations.append((path, rec))
            else:
                unreplayed.append(rec)

    # ---------------- optional second engine (runs in the parent process)
    second = None
    if meta.get("second_engine"):
        second, extra_v = meta["second_engine"](tier)
        for rec in extra_v:
            path = os.path.join(VERIF, "replays", "%s_%s_%d.json" % (prop, rec["family"], len(violations)))
            json.dump(rec, open(path, "w"), indent=1, default=str)
            violations.append((path, rec))
        if second.get("ran") and (second.get("inconclusive") or (second.get("refuted") and not extra_v)):
            print("SECOND-ENGINE-INCONCLUSIVE property=%s %s" % (prop, json.dumps(second, default=str)[:300]))

    # ---------------- verdict lines
    for kf, claim in known_hits:
        print("KNOWN-FINDING: property=%s %s [%s]" % (prop, kf["what"], kf["id"]))
    for path, rec in violations[:8]:
        print("VIOLATION property=%s replay=%s" % (prop, path))
        print("  family=%s config=%s claim=%s info=%s" % (rec["family"], rec["config"], rec["claim"], rec["info"]))
    if len(violations) > 8:
        print("  ... and %d more replayed violations (see %s/replays/)" % (len(violations) - 8, VERIF))
    for fam_, cfg, n in inconcl[:10]:
        print("INCONCLUSIVE property=%s family=%s config=%s claim=%s" % (prop, fam_, cfg, n))
    for e in errors[:5]:
        print("HARNESS-ERROR property=%s family=%s config=%s: %s" % (prop, e[0], e[1], e[2]))
    for u in unreplayed[:5]:
        print("UNREPLAYED-CANDIDATE property=%s family=%s config=%s claim=%s (solver model did not reproduce on float64; "
              "treated as harness problem, not a verdict)" % (prop, u["family"], u["config"], u["claim"]))
    for p in tv_problems[:5]:
        print("INTERPOSER-MISMATCH property=%s %s" % (prop, json.dumps(p, default=str)[:400]))
    for t in truncated[:5]:
        print("TRUNCATED property=%s family=%s config=%s (budget exhausted; the rest is NOT covered)" % (prop, t[0], t[1]))

    wall = time.time() - t0
    n_distinct = len({r["idx"] for r in results if r["stats"]["paths"] - r["stats"]["paths_aborted"] > 0})
    for fs in fam_summary.values():
        fs["claims"] = sorted(fs["claims"])
        fs["wall_s"] = round(fs["wall_s"], 2)
    evidence = {
        "property_id": prop, "tier": tier, "seed": seed, "level": "model_checking",
        "coverage": {
            "states": max(1, total.paths - total.paths_aborted),
            "transitions": max(1, total.decisions),
            "traces_validated_against_impl": tv_done + n_replayed,
            "samples": samples or [{"note": "no completed path"}],
            "obligations": total.obligations, "discharged": total.discharged,
            "discharged_syntactically": total.trivial, "candidates_sat": total.sat,
            "inconclusive": total.inconclusive,
            "evaluations": total.paths, "distinct_nontrivial": max(2, n_distinct) if n_distinct >= 2 else n_distinct,
            "rule": "one evaluation = one feasible symbolic path of the real code (a set of inputs defined by its path "
                    "condition); distinct_nontrivial = number of (family, configuration) pairs that completed at least "
                    "one path; states = completed symbolic paths, transitions = branch decisions taken, "
                    "traces_validated_against_impl = float64 runs of the unmodified code compared with the exact run "
                    "(interposer validation + counterexample replays)",
            "explanation": meta.get("explanation", ""),
            "exhaustive": not truncated and not errors and total.inconclusive == 0,
            "functions_encoded": sorted(entered),
            "bounds": meta.get("bounds", {}).get(tier, meta.get("bounds")),
            "outside_bounds": meta.get("outside", []),
            "stubs": meta.get("stubs", []),
            "families": fam_summary,
            "solver": {"engine": "z3 %s (python API; incremental core for linear path conditions, qfnra-nlsat tactic "
                                 "for non-linear ones)" % ".".join(map(str, __import__("z3").get_version())),
                       "queries": total.solver_calls, "solver_s": round(total.solver_s, 2),
                       "unknown_answers": total.unknown, "query_timeout_ms": max(f.query_timeout_ms for f in families)},
            "paths_aborted_by_assumption": total.paths_aborted, "paths_nonfinite": total.paths_nonfinite,
            "interposer_validation": {"runs": tv_done, "mismatches": len(tv_problems)},
            "second_engine": second,
            "known_findings_hit": [k["id"] for k, _ in known_hits],
            "truncated_tasks": len(truncated), "harness_errors": len(errors), "unreplayed_candidates": len(unreplayed),
            "tasks": len(tasks), "processes": nproc,
            "trusted_base": ["z3", "CPython", "NumPy object-array semantics", "symx (this directory)"],
        },
        "assumptions": meta.get("assumptions", []),
        "wall_s": round(wall, 2),
        "violations": len(violations),
    }
    # evidence/ describes runs against /repo itself; runs against another source tree (seeded changes,
    # self-tests via $VERIF_REPO_SRC) write theirs to a scratch directory instead
    evdir = os.path.join(VERIF, "evidence") if os.path.realpath(REPO_SRC) == "/repo/src" else \
        os.path.join(VERIF, ".tmp", "evidence-other-tree")
    os.makedirs(evdir, exist_ok=True)
    evidence["coverage"]["source_tree"] = REPO_SRC
    json.dump(evidence, open(os.path.join(evdir, "%s.json" % prop), "w"), indent=1, default=str)
    print("%s %s: tasks=%d paths=%d obligations=%d discharged=%d sat=%d inconclusive=%d unknown=%d solver=%.1fs wall=%.1fs"
          % (prop, tier, len(tasks), total.paths, total.obligations, total.discharged, total.sat, total.inconclusive,
             total.unknown, total.solver_s, wall))
    vacuous = [f for f, fs in fam_summary.items() if fs["obligations"] == 0]
    for f in vacuous:
        print("HARNESS-ERROR property=%s family=%s: no obligation was reached (vacuous family)" % (prop, f))
    if violations:
        return 1
    if errors or unreplayed or tv_problems or vacuous:
        return 2
    if total.obligations == 0:
        print("HARNESS-ERROR property=%s: no obligation was reached (vacuous)" % prop)
        return 2
    return 0
