#!/bin/sh
# usage: tools/tryseed.sh <patch.diff> <check-id> [tier]   - run one check against a scratch worktree of /repo with the patch applied
P=$1; C=$2; T=${3:-quick}; WT=/tmp/tryseed.$$
git -C /repo worktree add -q --detach $WT HEAD || exit 2
trap 'git -C /repo worktree remove --force $WT 2>/dev/null; rm -rf $WT' EXIT
git -C $WT apply "$P" || exit 2
cd /verif && VERIF_REPO_SRC=$WT/src ./run $C $T 2>&1 | grep -E "^(VIOLATION|UNREPLAYED|HARNESS|INTERPOSER|TRUNCATED|INCONCLUSIVE|$C )" | cut -c1-400 | awk '{k=$1" "$2" "$3; c[k]++; if (c[k]<=2) print}'
