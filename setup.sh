#!/bin/sh
# Build the verification environment offline: an overlay venv on top of /venv (which has the
# repository's own dependencies: numpy, scipy) plus z3-solver, crosshair-tool, jsonschema from the
# local wheelhouse. Idempotent.
set -e
cd "$(dirname "$0")"
V=/verif/.venv
if [ ! -x "$V/bin/python" ] || ! "$V/bin/python" -c "import z3, crosshair, jsonschema, numpy, scipy" 2>/dev/null; then
  rm -rf "$V"
  /venv/bin/python -m venv "$V"
  SP=$("$V/bin/python" -c "import sysconfig; print(sysconfig.get_paths()['purelib'])")
  echo "import site; site.addsitedir('/venv/lib/python3.12/site-packages')" > "$SP/_base_venv.pth"
  PIP_NO_INDEX=1 "$V/bin/python" -m pip install -q --no-index --find-links /opt/veriftools/wheels z3-solver crosshair-tool jsonschema >/dev/null
fi
"$V/bin/python" -c "import z3, crosshair, jsonschema, numpy, scipy; print('verif env ok: z3', z3.get_version_string(), 'numpy', numpy.__version__)"
