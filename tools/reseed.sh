#!/bin/sh
# Re-confirm every kept seeded change against the current checks: for each /verif/seeded/<name>/ run
# tools/seedcheck.sh with the property recorded in its meta.json (and any extra checks recorded there).
# Prints one line per seed; meta.json is refreshed.  Takes 1-3 minutes per seed.
cd "$(dirname "$0")/.."
for d in seeded/*/; do
  n=$(basename "$d")
  [ -f "$d/meta.json" ] || continue
  P=$(python3 -c "import json,sys; m=json.load(open('$d/meta.json')); print(m['breaks_property'], ' '.join(c['check'] for c in m.get('checks_run',[]) if c['check']!=m['breaks_property']))")
  set -- $P
  prop=$1; shift
  out=$(timeout 1800 tools/seedcheck.sh "$n" "$prop" "/verif/$d" $* 2>&1 | tail -1)
  echo "$n: $out"
done
