"""C05 - window strategies never overshoot and keep a plateau at the average."""
import argparse
import sys
from fractions import Fraction

import numpy as np

from symx.runner import Family, arr, increasing, run_check
from checks.rfafam import WINDOW, ALL6, shape_configs, symbolic_param_configs, large_configs, inputs, make, effective_a, num


class NoOvershoot(Family):
    name = "window-no-overshoot"
    split_depth = 12
    doc = "four window strategies: every value between own and neighbour average; plateau; monotone transitions"
    query_timeout_ms = 30000

    def configs(self, tier):
        if tier == "quick":
            return shape_configs(tier, WINDOW, sym_x_max_m=3, max_m=4, ns=(2, 3, 4), adaptive_max_m=4) + symbolic_param_configs(tier) + large_configs(tier)
        return shape_configs(tier, WINDOW, sym_x_max_m=4, max_m=6, ns=(2, 3, 4, 6), adaptive_max_m=5) + symbolic_param_configs(tier) + large_configs(tier)

    def run(self, ctx, inst, strategy, m, n, grid, p):
        x, y, X, ys = inputs(ctx, m, grid)
        xs, zs = make(ctx, strategy, x, y, n, p).rfa()
        ctx.note("zs", zs)
        L = (m - 1) * n + 1
        if len(zs) != L:
            ctx.claim("length", False)
            return
        a = effective_a(p, n, ctx)
        Y = list(ys)
        info = {"strategy": strategy, "p": p}
        for k in range(m - 1):
            yk = Y[k]
            left = Y[k - 1] if k > 0 else Y[0]
            right = Y[k + 1]
            seg = [zs[k * n + j] for j in range(n)]
            # border value lies between the two adjacent averages
            ctx.claim("border-between-averages", ctx.between(seg[0], left, yk), dict(info, k=k))
            for j in range(n):
                ctx.claim("between-own-and-neighbour",
                          ctx.Or(ctx.between(seg[j], yk, left), ctx.between(seg[j], yk, right)), dict(info, k=k, j=j))
            # plateau + monotone transitions: there is a split (Lw off-plateau samples at the left border, Rw at
            # the right one, Lw + Rw <= a - 1) such that the samples in between equal the average, the left part
            # moves monotonically from the border value to the average and the right part from the average to the
            # next border value.
            nxt = zs[(k + 1) * n]
            full = seg + [nxt]
            alts_plateau, alts_mono = [], []
            for Lw in range(0, min(a, n + 1)):
                for Rw in range(0, min(a - Lw, n + 1 - Lw)):
                    if Lw + Rw > a - 1 or Lw + Rw > n - 1:
                        continue
                    plateau = [ctx.eq(seg[j], yk) for j in range(Lw, n - Rw)]
                    alts_plateau.append(ctx.And(*plateau))
                    mono = [ctx.le(0, (full[j + 1] - full[j]) * (yk - full[0])) for j in range(0, Lw)]
                    mono += [ctx.le(0, (full[j + 1] - full[j]) * (full[n] - yk)) for j in range(n - Rw - 1, n)]
                    alts_mono.append(ctx.And(*(plateau + mono)))
            ctx.claim("at-most-a-1-off-plateau-nearest-borders", ctx.Or(*alts_plateau), dict(info, k=k, a=a))
            ctx.claim("monotone-transitions", ctx.Or(*alts_mono), dict(info, k=k, a=a))


class ConstantSeries(Family):
    name = "constant-series"
    doc = "a constant series is recreated as a constant by all six strategies (spline through its contract stub)"

    def configs(self, tier):
        out = []
        for c in shape_configs(tier, ALL6, sym_x_max_m=3, max_m=4 if tier == "quick" else 5, ns=(2, 3), adaptive_max_m=4):
            if c["strategy"] == "CubicSplineRFA":
                continue
            out.append(c)
        return out

    def run(self, ctx, inst, strategy, m, n, grid, p):
        c = ctx.real("c")
        if grid is None:
            xs_in = ctx.reals("x", m)
            increasing(ctx, xs_in)
            x = arr(ctx, xs_in)
        else:
            from checks.matchfam import cx
            x = cx(ctx, [Fraction(g) for g in grid])
        y = arr(ctx, [c] * m)
        xs, zs = make(ctx, strategy, x, y, n, p).rfa()
        for i in range(len(zs)):
            ctx.claim("constant-in-constant-out", ctx.eq(zs[i], c), {"strategy": strategy, "i": i})


class Exactness(Family):
    name = "piecewise-and-spline"
    doc = "piecewise-constant reproduces each average on its whole interval; cubic spline passes through every original point"
    differential = False

    def configs(self, tier):
        return [{"strategy": s, "m": m, "n": n} for s in ("PiecewiseConstantRFA", "CubicSplineRFA")
                for m in ((2, 3, 4) if tier == "quick" else (2, 3, 4, 5, 6)) for n in (2, 3, 4)]

    def run(self, ctx, inst, strategy, m, n):
        x, y, X, ys = inputs(ctx, m, None)
        xs, zs = make(ctx, strategy, x, y, n, {}).rfa()
        if strategy == "PiecewiseConstantRFA":
            for k in range(m - 1):
                for j in range(n):
                    ctx.claim("piecewise-constant-exact", ctx.same(zs[k * n + j], ys[k]), {"k": k, "j": j})
            ctx.claim("piecewise-constant-exact", ctx.same(zs[(m - 1) * n], ys[m - 1]), {"k": m - 1})
        else:
            for k in range(m):
                ctx.claim("spline-through-original-points", ctx.eq(zs[k * n], ys[k]), {"k": k})
            if ctx.symbolic:
                calls = inst.calls("CubicSpline")
                ok = len(calls) == 1 and all(ctx_same(ctx, a, b) for a, b in zip(list(calls[0]["x"]), X)) and \
                    all(ctx_same(ctx, a, b) for a, b in zip(list(calls[0]["y"]), ys))
                ctx.claim("spline-built-from-(x,y)", ok)


def ctx_same(ctx, a, b):
    r = ctx.same(a, b)
    return r is True


META = {
    "explanation": "Bounded symbolic execution of the four window strategies' rfa() with the averages y symbolic (ties "
                   "between neighbouring averages are simply some of the explored paths, which is how the special-case "
                   "branches of get_adaptive_transition_points are reached) and x symbolic (small m) or on concrete gap "
                   "grids. Claims per path, decided by z3 (non-linear real arithmetic for the adaptive windows and the "
                   "power shapes, through algebraic witnesses): border value between the adjacent averages; every "
                   "value between own and a neighbouring average; some split L+R <= a-1 of off-plateau samples at the "
                   "two borders; monotone transitions; constant in -> constant out; piecewise-constant exact; spline "
                   "stub fed (x, y) and hit at the knots.",
    "bounds": {"quick": "m in 2..4, n in {2,3,4}, parameter grids: alpha {1,1/2}, a {2,3}, beta {0,1/2,1}, exp {1,2}, "
                        "adaptive_smooth {1,2}; x symbolic for m<=3",
               "thorough": "m in 2..6 (adaptive <=5), n in {2,3,4,6}, alpha {1,1/2,3/4,1/4}, exp {1/2,1,2,3}, beta "
                           "{0,1/4,1/2,1}, adaptive_smooth {1/2,1,2}"},
    "outside": ["n up to 64 and long series", "exponents other than the listed rationals (each needs its own algebraic "
                "witness)", "float rounding", "the cubic spline between the knots (SciPy; stub)"],
    "assumptions": ["x strictly increasing", "CubicSpline contract stub"],
    "stubs": ["scipy.interpolate.CubicSpline"],
}

if __name__ == "__main__":
    ap = argparse.ArgumentParser()
    ap.add_argument("--tier", default="quick")
    a = ap.parse_args()
    sys.exit(run_check("C05", "no overshoot", [NoOvershoot(), ConstantSeries(), Exactness()], a.tier, META))
