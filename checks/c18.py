"""C18 - every documented dataset is reachable by name and well-formed."""
import argparse
import importlib
import os
import re
import sys
from contextlib import contextmanager

import numpy as np

from symx.runner import Family, run_check
from symx.core import Sym, HarnessError
from symx.symstr import SymStr, decode


def documented():
    """{family: [(name, repository_file_name)]} parsed from the description tables shipped with the package"""
    import traffic_weaver
    d = os.path.join(os.path.dirname(traffic_weaver.__file__), "datasets", "data_description")
    out = {}
    for f in sorted(os.listdir(d)):
        if not f.endswith(".md"):
            continue
        rows = []
        for line in open(os.path.join(d, f), encoding="utf-8"):
            m = re.match(r"\|\s*\d+\s*\|\s*([^|\s]+)\s*\|\s*([^|\s]+)\s*\|", line)
            if m:
                rows.append((m.group(1), m.group(2)))
        out[f[:-3]] = rows
    return out


def norm(s):
    return s.replace("-", "_")


def expected_function(name):
    return ("load_" if name.startswith("sandvine") else "fetch_") + norm(name)


@contextmanager
def recording_dataset_module(ctx):
    """Replace the loader-aggregation module seen by load_dataset with an attribute proxy whose loaders only
    record the call.  A symbolic attribute name forks over the attributes the real module exports."""
    import traffic_weaver.datasets as pkg
    real = importlib.import_module("traffic_weaver.datasets._datasets")
    calls = []
    exported = sorted(dir(real))

    def recorder(a):
        def f(*args, **kw):
            calls.append((a, args, kw))
            return ("DATA", a)
        return f

    class Proxy:
        def __getattr__(self, name):
            s = decode(ctx, name) if ctx.symbolic else name
            if isinstance(s, str):
                getattr(real, s)
                return recorder(s)
            for a in exported:
                if len(a) == len(s) and bool(s == a):
                    return recorder(a)
            raise AttributeError(name)

    saved = pkg._datasets
    pkg._datasets = Proxy()
    try:
        yield calls, real
    finally:
        pkg._datasets = saved


class Reachable(Family):
    name = "documented-name-resolves"
    doc = "each documented name, every '-'/'_' position a symbolic character in {'-','_'}, reaches its own loader"
    differential = False

    def configs(self, tier):
        out = []
        for fam, rows in documented().items():
            for (nm, repo) in rows:
                out.append({"name": nm, "unpack": len(out) % 2 == 0})
        return out

    def run(self, ctx, inst, name, unpack):
        from traffic_weaver.datasets import load_dataset
        chars = []
        for i, ch in enumerate(name):
            if ch in "-_":
                c = ctx.int("c%d" % i, 45, 95)
                ctx.assume(ctx.Or(ctx.eq(c, 45), ctx.eq(c, 95)))
                chars.append(c)
            else:
                chars.append(ch)
        if ctx.symbolic:
            arg = SymStr(chars)
        else:
            arg = "".join(chr(int(c)) if not isinstance(c, str) else c for c in chars)
            if any(not isinstance(c, str) and int(c) not in (45, 95) for c in chars):
                return
        with recording_dataset_module(ctx) as (calls, real):
            try:
                res = load_dataset(arg, unpack_dataset_columns=unpack)
            except ValueError as e:
                ctx.claim("documented-name-is-loadable", False, {"name": name, "error": "ValueError"})
                return
        ctx.claim("documented-name-is-loadable", True)
        ctx.claim("exactly-one-loader-called", len(calls) == 1, {"calls": [c[0] for c in calls]})
        if len(calls) == 1:
            a, args, kw = calls[0]
            ctx.claim("its-own-loader", a == expected_function(name), {"name": name, "called": a})
            ctx.claim("unpack-flag-forwarded", kw.get("unpack_dataset_columns") is unpack and not args, {"kw": str(kw)})
            ctx.claim("result-returned", res == ("DATA", a))


class UnknownRejected(Family):
    name = "unknown-name-raises-ValueError"
    doc = "an ARBITRARY printable string of each length: either ValueError, or it is a spelling of a documented name"
    differential = False

    def configs(self, tier):
        names = [nm for rows in documented().values() for (nm, _) in rows]
        lmax = max(len(n) for n in names)
        lens = list(range(0, lmax + 2))
        return [{"length": L} for L in lens]

    def run(self, ctx, inst, length):
        from traffic_weaver.datasets import load_dataset
        names = [nm for rows in documented().values() for (nm, _) in rows]
        if ctx.symbolic:
            s = SymStr.symbolic(ctx, "ch", length)
            chars = s.chars
        else:
            chars = [ctx.int("ch_%d" % i, 32, 126) for i in range(length)]
            s = "".join(chr(c) for c in chars)
        with recording_dataset_module(ctx) as (calls, real):
            try:
                load_dataset(s)
            except ValueError:
                ctx.claim("rejected-or-documented", True)
                return
        # accepted: must be a spelling of a documented name of this length, dispatched to that name's loader
        alts = []
        for d in names:
            if len(d) != length:
                continue
            conds = []
            for c, ch in zip(chars, d):
                if ch in "-_":
                    conds.append(ctx.Or(ctx.eq(c, 45), ctx.eq(c, 95)))
                else:
                    conds.append(ctx.eq(c, ord(ch)))
            alts.append(ctx.And(ctx.And(*conds), len(calls) == 1 and calls[0][0] == expected_function(d)))
        ctx.claim("rejected-or-documented", ctx.Or(*alts) if alts else False, {"length": length, "called": [c[0] for c in calls]})


class Metadata(Family):
    name = "remote-metadata-and-bundled-files"
    doc = "concrete facts (no quantifier): distinct URLs / checksums / remote files / cache slots; bundled CSVs well-formed"
    differential = False

    def configs(self, tier):
        return [{"part": "remote"}, {"part": "bundled"}]

    def run(self, ctx, inst, part):
        import traffic_weaver.datasets as pkg
        docs = documented()
        if part == "remote":
            recs = {}
            for modname in ("_ams_ix", "_ix_br", "_mix_it"):
                mod = importlib.import_module("traffic_weaver.datasets." + modname)
                saved = mod.load_csv_dataset_from_remote
                cur = []
                mod.load_csv_dataset_from_remote = lambda **kw: cur.append(kw) or "DATA"
                try:
                    for a in sorted(dir(mod)):
                        if a.startswith("fetch_"):
                            del cur[:]
                            getattr(mod, a)()
                            ctx.claim("loader-makes-one-remote-request", len(cur) == 1, {"loader": a})
                            if len(cur) == 1:
                                recs[a] = dict(cur[0])
                            # keyword arguments (unpack flag, data home, flags) are handed through to the remote loader
                            del cur[:]
                            getattr(mod, a)(unpack_dataset_columns=True, data_home="/somewhere", download_if_missing=False)
                            ok = len(cur) == 1 and cur[0].get("unpack_dataset_columns") is True and \
                                cur[0].get("data_home") == "/somewhere" and cur[0].get("download_if_missing") is False
                            ctx.claim("loader-forwards-keyword-arguments", ok, {"loader": a})
                finally:
                    mod.load_csv_dataset_from_remote = saved
            remote_names = [nm for fam in ("ams_ix", "ix_br", "mix_it") for (nm, _) in docs[fam]]
            ctx.claim("one-loader-per-documented-remote-name",
                      sorted(expected_function(n) for n in remote_names) == sorted(recs), {"n_docs": len(remote_names), "n_loaders": len(recs)})
            for field, get in (("url", lambda r: r["remote"].url), ("checksum", lambda r: r["remote"].checksum),
                               ("remote-file", lambda r: r["remote"].filename),
                               ("cache-slot", lambda r: (r["dataset_folder"], r["dataset_filename"]))):
                seen = {}
                for a, r in sorted(recs.items()):
                    v = get(r)
                    ctx.claim("distinct-" + field, v not in seen, {"loader": a, "shares_with": seen.get(v), "value": str(v)})
                    seen.setdefault(v, a)
            for a, r in sorted(recs.items()):
                ctx.claim("checksum-validated", r.get("validate_checksum") is True, {"loader": a})
                ctx.claim("checksum-is-sha256-hex", bool(re.fullmatch(r"[0-9a-f]{64}", r["remote"].checksum)), {"loader": a})
        else:
            from traffic_weaver.datasets import load_dataset
            for (nm, repo) in docs["sandvine"]:
                a = load_dataset(nm)
                ok = isinstance(a, np.ndarray) and a.ndim == 2 and a.shape[1] == 2 and a.shape[0] >= 2 and a.dtype == np.float64 \
                    and bool(np.all(np.isfinite(a))) and bool(np.all(np.diff(a[:, 0]) > 0))
                ctx.claim("bundled-dataset-well-formed", ok, {"name": nm})
                x, y = load_dataset(nm, unpack_dataset_columns=True)
                ctx.claim("bundled-dataset-unpacks-to-columns", bool(np.array_equal(x, a[:, 0]) and np.array_equal(y, a[:, 1])), {"name": nm})
                # "every" request: whatever the caller did to an earlier result (in-place edits included), the next
                # request for the same name returns the shipped values again
                pristine = a.copy()
                for arr_ in (a, x, y):
                    if isinstance(arr_, np.ndarray) and arr_.flags.writeable:
                        arr_[...] = -arr_[::-1] - 1.0
                b = load_dataset(nm)
                ctx.claim("bundled-dataset-well-formed-on-every-request",
                          isinstance(b, np.ndarray) and b.shape == pristine.shape and bool(np.array_equal(b, pristine)), {"name": nm})
                x2, y2 = load_dataset(nm, unpack_dataset_columns=True)
                ctx.claim("bundled-dataset-well-formed-on-every-request",
                          bool(np.array_equal(x2, pristine[:, 0]) and np.array_equal(y2, pristine[:, 1])), {"name": nm, "unpack": True})


META = {
    "explanation": "Name resolution: the real load_dataset runs on a symbolic string (one solver integer per character; "
                   "startswith / replace / f-string formatting / attribute lookup are executed on it, the lookup forking "
                   "over the attributes the aggregation module really exports). (1) For each of the documented names "
                   "(parsed at run time from the four shipped tables) every '-'/'_' position is a symbolic character in "
                   "{'-','_'}: one solver-decided family per name instead of 2^k spellings; the call must reach that "
                   "name's own loader with the unpack flag forwarded. (2) Converse: for an ARBITRARY printable string of "
                   "every length 0..longest+1, the call either raises ValueError or z3 proves the string is a spelling "
                   "of a documented name dispatched to that name's loader. (3) Concrete facts without a quantifier, "
                   "evaluated (not solver-decided) by running every fetch_* with the remote loader replaced by a "
                   "recorder: pairwise distinct URLs, checksums, remote files and cache slots, checksum validation on; "
                   "the 19 bundled CSVs are finite (n,2) float arrays with strictly increasing first column, also when requested "
                   "again after the caller edited an earlier result in place. The "
                   "data-home clause of the property is decided in C19's file-system model.",
    "bounds": {"quick": "all documented names x all separator spellings; arbitrary strings of every length up to the "
                        "longest documented name + 1; characters 32..126", "thorough": "same (the space is covered in quick)"},
    "outside": ["non-ASCII / control characters in names", "strings longer than the longest documented name + 1 (no "
                "exported loader has a longer name, so the lookup cannot succeed)", "actual downloads (no network)"],
    "assumptions": ["the loaders are replaced by recorders: what is decided is the dispatch, not the loading"],
    "stubs": ["dataset loaders (recording stubs)", "load_csv_dataset_from_remote (recorder) in the metadata part"],
}

if __name__ == "__main__":
    ap = argparse.ArgumentParser()
    ap.add_argument("--tier", default="quick")
    a = ap.parse_args()
    from checks.c19 import DataHome          # the data-home clause runs on C19's file-system model
    sys.exit(run_check("C18", "datasets reachable", [Reachable(), UnknownRejected(), Metadata(), DataHome()], a.tier, META))
