"""Harness families for integral matching (shared by C01 and C03)."""
import itertools
import random
from fractions import Fraction

import numpy as np

from symx.runner import Family, arr, increasing
from symx.core import Sym


def gap_grids(n, tier, seed=0, limit=None):
    """strictly increasing concrete abscissae: uniform ones plus gap patterns over {1,2,3}"""
    out = [[Fraction(i) for i in range(n)], [Fraction(1, 4) * i + Fraction(5, 2) for i in range(n)]]
    pats = list(itertools.product((1, 2, 3), repeat=n - 1))
    rnd = random.Random(1000 + n + seed)
    rnd.shuffle(pats)
    k = limit if limit is not None else (2 if tier == "quick" else 8)
    for p in pats[:k]:
        xs = [Fraction(0)]
        for g in p:
            xs.append(xs[-1] + Fraction(g, 2))
        out.append(xs)
    return out


def cx(ctx, vals):
    """concrete abscissae -> array usable in both modes"""
    if ctx.symbolic:
        return arr(ctx, vals)
    return np.array([float(v) for v in vals], dtype=np.float64)


# ------------------------------------------------------------------ oracle pieces (declarative)

def o_abs(v):
    return v if v >= 0 else -v


def o_closest(X, q):
    best = 0
    for i in range(1, len(X)):
        if o_abs(X[i] - q) < o_abs(X[best] - q):
            best = i
    return best


def o_lower(X, q):
    best = 0
    for i in range(len(X)):
        if X[i] <= q:
            best = i
    return best


def o_higher(X, q):
    for i in range(len(X)):
        if X[i] >= q:
            return i
    return len(X) - 1


O_SEARCH = {"closest": o_closest, "lower": o_lower, "higher": o_higher}


def o_integral(X, Y, rule, a, b):
    """integral of samples a..b (inclusive indices) under `rule`"""
    tot = 0
    for i in range(a, b):
        dx = X[i + 1] - X[i]
        if rule == "rectangle":
            tot = tot + Y[i] * dx
        else:
            tot = tot + (Y[i] + Y[i + 1]) / 2 * dx
    return tot


def o_pow(ctx, base, alpha):
    """base ** alpha inside the oracle, same number system as the code under test"""
    return base ** alpha


class MatchAPI(Family):
    """integral_matching_reference_stretch through its public signature."""
    name = "match-api"
    claims = ("C01", "C03")
    query_timeout_ms = 20000

    def __init__(self, which):
        self.which = which

    def configs(self, tier):
        out = []
        rules = [("trapezoid", "rectangle"), ("rectangle", "rectangle"), ("trapezoid", "trapezoid"),
                 ("rectangle", "trapezoid")]
        alphas = [1, 2, Fraction(1, 2)] if tier == "quick" else [1, 2, 3, Fraction(1, 2), Fraction(3, 2)]
        Ns = [5, 7] if tier == "quick" else [5, 6, 7, 9]
        i = 0
        for N in Ns:
            for gi, grid in enumerate(gap_grids(N, tier)):
                for mode in ("closest", "lower", "higher", "positions", "indices"):
                    for (tr, rr) in rules:
                        i += 1
                        # alphas rotate over the configurations to keep the product small
                        alpha = alphas[i % len(alphas)]
                        M = 2 if N <= 5 else 3
                        if tier == "quick" and mode in ("lower", "higher") and (i % 2):
                            continue
                        out.append({"N": N, "grid": [str(g) for g in grid], "M": M, "mode": mode, "trule": tr,
                                    "rrule": rr, "alpha": str(alpha)})
        # explicit fixed points matched to a strict SUBSET of the reference points (two fixed points, three symbolic reference
        # positions: whichever two are closest - first/second, first/third or second/third - bound the only interval)
        for N in Ns[:2]:
            grid = gap_grids(N, tier)[-1]
            for mode in ("positions", "indices"):
                for k, (tr, rr) in enumerate(rules):
                    out.append({"N": N, "grid": [str(g) for g in grid], "M": 3, "mode": mode, "trule": tr, "rrule": rr,
                                "alpha": str(alphas[k % len(alphas)]), "nfix": 2})
        # typed inputs: the processed values given as integers (ndarray of an integer dtype / list of Python ints);
        # the reference stays symbolic, so the required displacement is an arbitrary real
        grid = gap_grids(5, tier)[-1]
        for ytype in ("int-array", "int-list"):
            for mode in ("closest", "indices"):
                for (tr, rr) in rules[:2]:
                    out.append({"N": 5, "grid": [str(g) for g in grid], "M": 2, "mode": mode, "trule": tr, "rrule": rr,
                                "alpha": "2" if mode == "closest" else "1", "ytype": ytype})
        return out

    def run(self, ctx, inst, N, grid, M, mode, trule, rrule, alpha, ytype=None, nfix=None):
        from traffic_weaver import match
        alpha_f = Fraction(alpha)
        alpha_arg = (ctx.const(alpha_f) if ctx.symbolic else float(alpha_f))
        gx = [Fraction(g) for g in grid]
        x = cx(ctx, gx)
        rs = ctx.reals("r", M)
        if ytype:
            ctx.typed_inputs = True
            ints = [3, -1, 4, 1, 5, 9, 2, 6][:N]
            y = np.array(ints) if ytype == "int-array" else list(ints)
            ys = [Sym.lift(v) for v in ints] if ctx.symbolic else [float(v) for v in ints]
        else:
            ys = ctx.reals("y", N)
            y = arr(ctx, ys)
        y_in = [v for v in ys]
        kw = {}
        X = [ctx.exact(float(g)) if not ctx.symbolic else Sym.lift(g) for g in gx]
        if mode in ("closest", "lower", "higher"):
            ps = ctx.reals("p", M)
            increasing(ctx, ps)
            P = [ctx.exact(v) for v in ps]
            F = [O_SEARCH[mode](X, q) for q in P]
            R = list(range(M))
            kw["fixed_points_finding_strategy"] = mode
        else:
            # explicit fixed points: concrete members of x, reference positions symbolic
            ps = ctx.reals("p", M)
            increasing(ctx, ps)
            P = [ctx.exact(v) for v in ps]
            F = [0, N - 1] if (M == 2 or nfix == 2) else [0, (N - 1) // 2, N - 1]
            R = [o_closest(P, X[f]) for f in F]
            # the caller may list explicit fixed points in any order (they are documented as a set)
            order = list(reversed(F)) if (N + M + len(trule)) % 2 else ([F[-1]] + F[:-1])
            if mode == "positions":
                kw["fixed_points_in_x"] = [x[f] for f in order]
            else:
                kw["fixed_points_indices_in_x"] = list(order)
        # precondition of the property: distinct fixed points with an interior sample in between,
        # and (explicit modes) distinct matched reference points
        for a, b in zip(F, F[1:]):
            ctx.assume(b - a >= 2)
        for a, b in zip(R, R[1:]):
            ctx.assume(b > a)
        xr, yr = arr(ctx, ps), arr(ctx, rs)
        res = match.integral_matching_reference_stretch(x, y, xr, yr, target_function_integral_method=trule,
                                                        reference_function_integral_method=rrule, alpha=alpha_arg, **kw)
        ctx.note("res", res)
        ctx.claim("shape", isinstance(res, np.ndarray) and res.shape == (N,))
        PR = [ctx.exact(v) for v in ps] if not ctx.symbolic else ps
        RR = [ctx.exact(v) for v in rs] if not ctx.symbolic else rs
        if self.which == "C01":
            total_exp, total_got = 0, 0
            for k in range(len(F) - 1):
                exp = o_integral(PR, RR, rrule, R[k], R[k + 1])
                got = o_integral(X, list(res), trule, F[k], F[k + 1])
                ctx.claim("interval-integral", ctx.eq(got, exp), {"k": k, "F": F, "R": R})
                total_exp, total_got = total_exp + exp, total_got + got
            if mode in ("closest", "lower", "higher"):
                ctx.claim("total-integral", ctx.eq(total_got, o_integral(PR, RR, rrule, 0, M - 1)), {"F": F})
            else:
                ctx.claim("total-integral", ctx.eq(total_got, total_exp), {"F": F})
        else:
            for i in range(N):
                if i <= F[0] or i >= F[-1]:
                    ctx.claim("outside-span-unchanged", ctx.same(res[i], y_in[i]), {"i": i, "F": F})
            for f in F:
                ctx.claim("fixed-point-unchanged", ctx.same(res[f], y_in[f]), {"f": f, "F": F})
            for k in range(len(F) - 1):
                a, b = F[k], F[k + 1]
                c = (X[a] + X[b]) / 2
                width = X[b] - X[a]
                W, D = {}, {}
                for i in range(a + 1, b):
                    base = 2 * o_abs(X[i] - c) / width
                    W[i] = 1 - o_pow(ctx, base, alpha_f if ctx.symbolic else float(alpha_f))
                    D[i] = res[i] - y_in[i]
                ids = list(W)
                for i, j in zip(ids, ids[1:]):
                    ctx.claim("profile-proportional", ctx.eq(D[i] * W[j], D[j] * W[i]), {"i": i, "j": j, "F": F})
                for i in ids:
                    ctx.claim("same-direction", ctx.le(0, D[i] * D[ids[0]]), {"i": i, "F": F})
                    # zero displacement only where the weight is zero or nothing moves at all
            res2 = match.integral_matching_reference_stretch(x, res, xr, yr, target_function_integral_method=trule,
                                                             reference_function_integral_method=rrule,
                                                             alpha=alpha_arg, **kw)
            for i in range(N):
                ctx.claim("idempotent", ctx.eq(res2[i], res[i]), {"i": i})


class MatchLong(Family):
    """More intervals: concrete reference positions (on and off the grid), symbolic values."""
    name = "match-api-many-intervals"

    def __init__(self, which):
        self.which = which

    def configs(self, tier):
        out = []
        rules = [("trapezoid", "rectangle"), ("rectangle", "rectangle"), ("trapezoid", "trapezoid"), ("rectangle", "trapezoid")]
        alphas = ["1", "2", "1/2", "3/2"]
        i = 0
        for N, M in ((9, 4), (13, 5)) if tier == "quick" else ((9, 4), (11, 4), (13, 5), (17, 6)):
            for grid in gap_grids(N, tier, limit=1 if tier == "quick" else 3):
                span = grid[-1] - grid[0]
                for off in (0, 1):
                    # reference positions spread over the range; `off` moves the inner ones off the grid
                    pos = [grid[0] + span * k / (M - 1) + (Fraction(off, 7) if 0 < k < M - 1 else 0) for k in range(M)]
                    for mode in ("closest", "lower", "higher", "positions-subset", "indices-subset"):
                        i += 1
                        tr, rr = rules[i % 4]
                        if tier == "quick" and mode in ("lower", "higher") and i % 2:
                            continue
                        out.append({"N": N, "grid": [str(g) for g in grid], "pos": [str(p) for p in pos], "mode": mode,
                                    "trule": tr, "rrule": rr, "alpha": alphas[i % 4]})
                        if mode.endswith("-subset"):
                            # the explicit fixed points need not reach the first / last reference point
                            for keep in (("drop-last", "drop-first") if tier == "quick" else ("drop-last", "drop-first", "drop-both")):
                                i += 1
                                tr, rr = rules[i % 4]
                                out.append({"N": N, "grid": [str(g) for g in grid], "pos": [str(p) for p in pos], "mode": mode,
                                            "trule": tr, "rrule": rr, "alpha": alphas[i % 4], "keep": keep})
        return out

    def run(self, ctx, inst, N, grid, pos, mode, trule, rrule, alpha, keep="ends"):
        from traffic_weaver import match
        alpha_f = Fraction(alpha)
        alpha_arg = ctx.const(alpha_f) if ctx.symbolic else float(alpha_f)
        gx, gp = [Fraction(g) for g in grid], [Fraction(p) for p in pos]
        M = len(gp)
        x, xr = cx(ctx, gx), cx(ctx, gp)
        ys, rs = ctx.reals("y", N), ctx.reals("r", M)
        y_in = list(ys)
        kw = {}
        if mode in ("closest", "lower", "higher"):
            F = [O_SEARCH[mode](gx, q) for q in gp]
            R = list(range(M))
            kw["fixed_points_finding_strategy"] = mode
        else:
            # explicit fixed points: a strict subset of the samples closest to the reference points, so that more
            # than one reference gap lies between two fixed points
            allF = [o_closest(gx, q) for q in gp]
            keep = {"ends": [0, M // 2, M - 1], "drop-last": [0, 1, M - 2], "drop-first": [1, M - 2, M - 1],
                    "drop-both": [1, M - 2]}[keep]
            keep = sorted(set(keep))
            F = [allF[k] for k in keep]
            R = [o_closest(gp, gx[f]) for f in F]
            order = (F[1:] + F[:1]) if (N + len(rrule)) % 2 else list(reversed(F))
            if mode == "positions-subset":
                kw["fixed_points_in_x"] = [x[f] for f in order]
            else:
                kw["fixed_points_indices_in_x"] = list(order)
        for a, b in zip(F, F[1:]):
            ctx.assume(b - a >= 2)
        for a, b in zip(R, R[1:]):
            ctx.assume(b > a)
        res = match.integral_matching_reference_stretch(x, arr(ctx, ys), xr, arr(ctx, rs), target_function_integral_method=trule,
                                                        reference_function_integral_method=rrule, alpha=alpha_arg, **kw)
        ctx.note("res", res)
        X = [Sym.lift(g) for g in gx] if ctx.symbolic else [float(g) for g in gx]
        P = [Sym.lift(g) for g in gp] if ctx.symbolic else [float(g) for g in gp]
        if self.which == "C01":
            for k in range(len(F) - 1):
                exp = o_integral(P, list(rs), rrule, R[k], R[k + 1])
                got = o_integral(X, list(res), trule, F[k], F[k + 1])
                ctx.claim("interval-integral", ctx.eq(got, exp), {"k": k, "F": F, "R": R, "mode": mode})
        else:
            for i in range(N):
                if i <= F[0] or i >= F[-1]:
                    ctx.claim("outside-span-unchanged", ctx.same(res[i], y_in[i]), {"i": i, "F": F})
            for f in F:
                ctx.claim("fixed-point-unchanged", ctx.same(res[f], y_in[f]), {"f": f, "F": F})
            for k in range(len(F) - 1):
                a, b = F[k], F[k + 1]
                c, width = (gx[a] + gx[b]) / 2, gx[b] - gx[a]
                ids = list(range(a + 1, b))
                W = {i: 1 - o_pow(ctx, Sym.lift(2 * abs(gx[i] - c) / width) if ctx.symbolic else float(2 * abs(gx[i] - c) / width),
                                  alpha_f if ctx.symbolic else float(alpha_f)) for i in ids}
                D = {i: res[i] - y_in[i] for i in ids}
                for i, j in zip(ids, ids[1:]):
                    ctx.claim("profile-proportional", ctx.eq(D[i] * W[j], D[j] * W[i]), {"i": i, "j": j, "F": F})
            res2 = match.integral_matching_reference_stretch(x, res, xr, arr(ctx, rs), target_function_integral_method=trule,
                                                             reference_function_integral_method=rrule, alpha=alpha_arg, **kw)
            for i in range(N):
                ctx.claim("idempotent", ctx.eq(res2[i], res[i]), {"i": i})


class Kernel(Family):
    """_integral_matching_stretch (the stretching kernel) with symbolic abscissae as well."""
    name = "match-kernel-symbolic-x"
    query_timeout_ms = 30000

    def __init__(self, which):
        self.which = which

    def configs(self, tier):
        out = []
        for rule in ("trapezoid", "rectangle"):
            for N, alpha in ([(3, 1), (4, 1), (5, 1), (4, 2)] if tier == "quick" else
                             [(3, 1), (4, 1), (5, 1), (6, 1), (3, 2), (4, 2), (4, 3), (4, "1/2")]):
                out.append({"N": N, "rule": rule, "alpha": str(alpha)})
        return out

    def run(self, ctx, inst, N, rule, alpha):
        from traffic_weaver import match
        alpha_f = Fraction(alpha)
        xs = ctx.reals("x", N)
        increasing(ctx, xs)
        ys = ctx.reals("y", N)
        target = ctx.real("I")
        x, y = arr(ctx, xs), arr(ctx, ys)
        res = match._integral_matching_stretch(x, y, integral_value=target, integral_method=rule,
                                               alpha=(ctx.const(alpha_f) if ctx.symbolic else float(alpha_f)))
        ctx.note("res", res)
        X = [ctx.exact(v) for v in xs] if not ctx.symbolic else xs
        if self.which == "C01":
            got = o_integral(X, list(res), rule, 0, N - 1)
            ctx.claim("kernel-integral", ctx.eq(got, target))
        else:
            ctx.claim("kernel-ends-fixed", ctx.And(ctx.same(res[0], ys[0]), ctx.same(res[N - 1], ys[N - 1])))
            c = (X[0] + X[N - 1]) / 2
            width = X[N - 1] - X[0]
            W = {i: 1 - (2 * o_abs(X[i] - c) / width) ** (alpha_f if ctx.symbolic else float(alpha_f))
                 for i in range(1, N - 1)}
            D = {i: res[i] - ys[i] for i in range(1, N - 1)}
            ids = list(W)
            for i, j in zip(ids, ids[1:]):
                ctx.claim("kernel-profile", ctx.eq(D[i] * W[j], D[j] * W[i]), {"i": i, "j": j})
            for i in ids:
                ctx.claim("kernel-same-direction", ctx.le(0, D[i] * D[ids[0]]), {"i": i})


class KernelAffine(Family):
    """Kernel on concrete rational grids with y AND the target integral symbolic (affine in both)."""
    name = "match-kernel-lattice"

    def __init__(self, which):
        self.which = which

    def configs(self, tier):
        out = []
        Ns = (3, 4, 5, 6, 7, 8)
        for N in Ns:
            grids = gap_grids(N, tier, limit=(4 if tier == "quick" else 40))
            for gi, grid in enumerate(grids):
                for alpha in (1, 2, 3):
                    if tier == "quick" and (gi + alpha + N) % 3:
                        continue
                    for rule in ("trapezoid", "rectangle"):
                        out.append({"N": N, "grid": [str(g) for g in grid], "alpha": alpha, "rule": rule})
        return out

    def run(self, ctx, inst, N, grid, alpha, rule):
        from traffic_weaver import match
        gx = [Fraction(g) for g in grid]
        x = cx(ctx, gx)
        ys = ctx.reals("y", N)
        target = ctx.real("I")
        res = match._integral_matching_stretch(x, arr(ctx, ys), integral_value=target, integral_method=rule, alpha=alpha)
        ctx.note("res", res)
        X = [Sym.lift(g) for g in gx] if ctx.symbolic else [Fraction(g) for g in gx]
        Xf = X if ctx.symbolic else [float(g) for g in gx]
        if self.which == "C01":
            ctx.claim("kernel-integral", ctx.eq(o_integral(Xf, list(res), rule, 0, N - 1), target))
        else:
            ctx.claim("kernel-ends-fixed", ctx.And(ctx.same(res[0], ys[0]), ctx.same(res[N - 1], ys[N - 1])))
            c = (gx[0] + gx[-1]) / 2
            width = gx[-1] - gx[0]
            W = {i: 1 - (2 * abs(gx[i] - c) / width) ** alpha for i in range(1, N - 1)}
            D = {i: res[i] - ys[i] for i in range(1, N - 1)}
            ids = list(W)
            for i, j in zip(ids, ids[1:]):
                ctx.claim("kernel-profile", ctx.eq(D[i] * float(W[j]) if not ctx.symbolic else D[i] * W[j],
                                                   D[j] * float(W[i]) if not ctx.symbolic else D[j] * W[i]), {"i": i})
            for i in ids:
                ctx.claim("kernel-same-direction", ctx.le(0, D[i] * D[ids[0]]), {"i": i})


class SymbolicAlpha(Family):
    """API-level run with the stretch exponent a solver variable (> 0): uninterpreted pow with the
    axioms pow(0)=0, pow(1)=1, 0<b<1 -> 0<pow(b)<1, monotone, congruent."""
    name = "match-symbolic-alpha"
    differential = False
    query_timeout_ms = 30000

    def __init__(self, which):
        self.which = which

    def configs(self, tier):
        out = []
        for N in ((5,) if tier == "quick" else (5, 7)):
            for grid in gap_grids(N, tier, limit=1 if tier == "quick" else 3):
                for tr in ("trapezoid", "rectangle"):
                    out.append({"N": N, "grid": [str(g) for g in grid], "trule": tr})
        return out

    def run(self, ctx, inst, N, grid, trule):
        from traffic_weaver import match
        if not ctx.symbolic:
            # replay: alpha concrete
            al = ctx.real("alpha")
            ctx.assume(al > 0)
        else:
            al = ctx.real("alpha")
            ctx.assume(al > 0)
        gx = [Fraction(g) for g in grid]
        x = cx(ctx, gx)
        ys = ctx.reals("y", N)
        rs = ctx.reals("r", 2)
        xr = cx(ctx, [gx[0], gx[-1]])
        res = match.integral_matching_reference_stretch(x, arr(ctx, ys), xr, arr(ctx, rs),
                                                        target_function_integral_method=trule, alpha=al)
        X = [Sym.lift(g) for g in gx] if ctx.symbolic else [float(g) for g in gx]
        if self.which == "C01":
            exp = rs[0] * (X[-1] - X[0])
            ctx.claim("interval-integral(symbolic alpha)", ctx.eq(o_integral(X, list(res), trule, 0, N - 1), exp))
        else:
            ctx.claim("fixed-point-unchanged(symbolic alpha)", ctx.And(ctx.same(res[0], ys[0]), ctx.same(res[N - 1], ys[N - 1])))
            D = [res[i] - ys[i] for i in range(N)]
            for i in range(1, N - 1):
                ctx.claim("same-direction(symbolic alpha)", ctx.le(0, D[i] * D[1]), {"i": i})
