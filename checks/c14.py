"""C14 - trend, shift, scale and normalise are exact pointwise maps."""
import argparse
import sys
import math

import numpy as np

from symx.runner import Family, arr, increasing, run_check
from symx.core import Sym


class UF:
    """an arbitrary pure callable: uninterpreted in symbolic mode, a fixed smooth function in replay"""

    def __init__(self, ctx, tag, conc):
        # one table per (run, tag): two UF objects with the same tag denote the SAME function
        self.ctx, self.tag, self.conc, self.table, self.args = ctx, tag, conc, ctx.uf_table(tag), []

    def __call__(self, q):
        self.args.append(q)
        if self.ctx.symbolic:
            qs = Sym.lift(q)
            k = qs.key()
            if k not in self.table:
                r = self.ctx.fresh(self.tag)
                # functional consistency with every earlier application: equal arguments give equal values
                prev = list(self.table.values())
                self.table[k] = (qs, r)
                for (q2, r2) in prev:
                    c = self.ctx.Implies(qs == q2, r == r2)
                    if c is not True:
                        self.ctx.add_def(c)
            return self.table[k][1]
        return self.conc(float(q))


class Trend(Family):
    name = "trend"
    doc = "process.trend / Weaver.trend with an uninterpreted trend function"

    def configs(self, tier):
        Ls = (2, 3, 4, 5, 6) if tier == "quick" else (2, 3, 4, 5, 6, 8, 10)
        return [{"L": L, "normalized": nz, "via": via} for L in Ls for nz in (False, True) for via in ("process", "weaver")] + \
               [{"L": 3, "normalized": nz, "via": "weaver-after-history", "kind": k} for nz in (False, True)
                for k in ("tracked", "reshaped-other-range", "gridded")]

    def run(self, ctx, inst, L, normalized, via, kind="tracked"):
        from traffic_weaver import process, Weaver
        xs, ys = ctx.reals("x", L), ctx.reals("y", L)
        increasing(ctx, xs)
        f = UF(ctx, "f", lambda t: math.sin(t) + 0.5 * t * t)
        g = UF(ctx, "g", lambda t: 2.0 - t)
        x_in, y_in = arr(ctx, xs), arr(ctx, list(ys))
        if via == "process":
            rx, ry = process.trend(x_in, y_in, f, normalized)
        elif via == "weaver-after-history":
            # a Weaver after an arbitrary domain history (accumulated scale factors arbitrary): the trend still acts on
            # the CURRENT abscissae
            from checks.weaverfam import make_state
            # (kinds other than "tracked": the working series has its own length and - other-range - its own range, which is
            #  the one a normalised trend refers to)
            w = make_state(ctx, L, kind).w
            xs, ys = list(w.x), list(w.y)
            L = len(xs)
            w.trend(f, normalized=normalized)
            rx, ry = w.get()
        else:
            w = Weaver(arr(ctx, xs), arr(ctx, list(ys))).trend(f, normalized=normalized)
            rx, ry = w.get()
        span = xs[-1] - xs[0]
        ctx.claim("trend:length", len(rx) == L and len(ry) == L)
        for i in range(L):
            arg = xs[i] / span if normalized else xs[i]
            ctx.claim("trend:x-untouched", ctx.same(rx[i], xs[i]), {"i": i})
            ctx.claim("trend:y+f(x)", ctx.eq(ry[i], ys[i] + f(arg)), {"i": i, "normalized": normalized})
        # zero trend is the identity
        z = (lambda q: ctx.const(0)) if ctx.symbolic else (lambda q: 0.0)
        _, r0 = process.trend(arr(ctx, xs), arr(ctx, list(ys)), z, normalized)
        for i in range(L):
            ctx.claim("trend:zero-is-identity", ctx.same(r0[i], ys[i]), {"i": i})
        # trends add up
        _, r1 = process.trend(arr(ctx, xs), arr(ctx, list(ys)), f, normalized)
        _, r2 = process.trend(arr(ctx, xs), r1, g, normalized)
        _, r12 = process.trend(arr(ctx, xs), arr(ctx, list(ys)), lambda q: f(q) + g(q), normalized)
        for i in range(L):
            ctx.claim("trend:additive", ctx.eq(r2[i], r12[i]), {"i": i})
        # linear trend
        a = ctx.real("a")
        _, rl = process.linear_trend(arr(ctx, xs), arr(ctx, list(ys)), a, normalized)
        for i in range(L):
            arg = xs[i] / span if normalized else xs[i]
            ctx.claim("linear-trend", ctx.eq(rl[i], ys[i] + a * arg), {"i": i})


class ShiftScale(Family):
    name = "shift-scale"
    doc = "Weaver.shift_x/shift_y/scale_x/scale_y with symbolic parameters"

    def configs(self, tier):
        return [{"L": L, "op": op, "state": st} for L in ((2, 3, 5) if tier == "quick" else (2, 3, 5, 8))
                for op in ("shift_x", "shift_y", "scale_x", "scale_y") for st in ("fresh", "tracked", "reshaped-other-range", "int-list", "int64")
                if st == "fresh" or L == 3]

    def run(self, ctx, inst, L, op, state="fresh"):
        from traffic_weaver import Weaver
        s = ctx.real("s")
        if op.startswith("scale"):
            ctx.assume(ctx.ne(s, 0))
        if state == "fresh":
            xs, ys = ctx.reals("x", L), ctx.reals("y", L)
            increasing(ctx, xs)
            w = Weaver(arr(ctx, xs), arr(ctx, ys))
        elif state in ("int-list", "int64"):
            # integer-typed series, real parameter: nothing may be narrowed back to the series' type
            import numpy as np
            ctx.typed_inputs = True
            xi, yi = [-1, 0, 2], [3, -2, 5]
            w = Weaver(list(xi), list(yi)) if state == "int-list" else Weaver(np.array(xi, dtype=np.int64), np.array(yi, dtype=np.int64))
            xs = [ctx.const(v) if ctx.symbolic else float(v) for v in xi]
            ys = [ctx.const(v) if ctx.symbolic else float(v) for v in yi]
        else:
            # after an arbitrary history: accumulated scale factors are arbitrary
            from checks.weaverfam import make_state
            w = make_state(ctx, L, state).w
            xs, ys = list(w.x), list(w.y)
            L = len(xs)
        getattr(w, op)(s)
        rx, ry = w.get()
        for i in range(L):
            ex = {"shift_x": xs[i] + s, "scale_x": xs[i] * s}.get(op, xs[i])
            ey = {"shift_y": ys[i] + s, "scale_y": ys[i] * s}.get(op, ys[i])
            ctx.claim(op, ctx.And(ctx.eq(rx[i], ex), ctx.eq(ry[i], ey)), {"i": i})


class Normalize(Family):
    name = "normalize"
    doc = "process.normalize / Weaver.normalize_x/_y: min -> min_val, max -> max_val, increasing affine map"
    query_timeout_ms = 30000

    def configs(self, tier):
        Ls = (2, 3, 4) if tier == "quick" else (2, 3, 4, 5)
        # "scale_x+normalize_x": the scale is any NON-ZERO real, so the abscissae may be decreasing when they are normalised
        return [{"L": L, "via": via} for L in Ls for via in ("process", "normalize_y", "normalize_x", "scale_x+normalize_x")]

    def run(self, ctx, inst, L, via):
        from traffic_weaver import process, Weaver
        vs = ctx.reals("v", L)
        lo, hi = ctx.real("lo"), ctx.real("hi")
        ctx.assume(ctx.lt(lo, hi))
        if via == "scale_x+normalize_x":
            base = ctx.reals("b", L)
            increasing(ctx, base)
            c = ctx.real("c")
            ctx.assume(ctx.ne(c, 0))
            for v, b in zip(vs, base):
                ctx.assume(ctx.eq(v, b * c))
        if via == "normalize_x":
            increasing(ctx, vs)
        # precondition: not a constant array
        ctx.assume(ctx.Or(*[ctx.ne(vs[i], vs[0]) for i in range(1, L)]))
        if via == "process":
            out = process.normalize(arr(ctx, vs), lo, hi)
        elif via == "normalize_y":
            xs = ctx.reals("x", L)
            increasing(ctx, xs)
            out = Weaver(arr(ctx, xs), arr(ctx, vs)).normalize_y(lo, hi).get()[1]
        elif via == "scale_x+normalize_x":
            ys = ctx.reals("y", L)
            w = Weaver(arr(ctx, base), arr(ctx, ys)).scale_x(c).normalize_x(lo, hi)
            out = w.get()[0]
            ref = w.get_reference()[0]
            for i in range(L):
                ctx.claim("reference-normalised-like-working", ctx.eq(ref[i], out[i]), {"i": i})
        else:
            ys = ctx.reals("y", L)
            out = Weaver(arr(ctx, vs), arr(ctx, ys)).normalize_x(lo, hi).get()[0]
        ctx.note("out", out)
        V = [ctx.exact(v) for v in vs] if not ctx.symbolic else vs
        for i in range(L):
            is_min = ctx.And(*[V[i] <= V[j] for j in range(L)])
            is_max = ctx.And(*[V[i] >= V[j] for j in range(L)])
            ctx.claim("min->min_val", ctx.Implies(is_min, ctx.eq(out[i], lo)), {"i": i})
            ctx.claim("max->max_val", ctx.Implies(is_max, ctx.eq(out[i], hi)), {"i": i})
            for j in range(L):
                if i != j:
                    ctx.claim("order-preserved", ctx.Implies(V[i] < V[j], ctx.lt(out[i], out[j])), {"i": i, "j": j})
        for i in range(L - 1):
            for j in range(i + 1, L - 1):
                # relative spacing: (n_i+1 - n_i) * (v_j+1 - v_j) == (n_j+1 - n_j) * (v_i+1 - v_i)
                ctx.claim("relative-spacing-preserved",
                          ctx.eq((out[i + 1] - out[i]) * (vs[j + 1] - vs[j]), (out[j + 1] - out[j]) * (vs[i + 1] - vs[i])),
                          {"i": i, "j": j})



class NormalizeFromState(Family):
    name = "normalize-from-arbitrary-state"
    doc = ("Weaver.normalize_x/_y from an ARBITRARY state (working series with its own length, values and - for one kind - its own "
           "range, different from the reference's and the original's): the series get() returns goes min -> min_val, max -> max_val")
    query_timeout_ms = 30000

    def configs(self, tier):
        # abscissae are ordered (one path); values are not: min/max over n symbolic values forks over their orderings
        Ls = (2, 3) if tier == "quick" else (2, 3, 4)
        return [{"L": L, "kind": k, "axis": a} for L in Ls for k in ("reshaped", "reshaped-other-range", "gridded") for a in ("x", "y")
                if a == "x" or L == 2 or (tier != "quick" and L == 3 and k == "gridded")]

    def run(self, ctx, inst, L, kind, axis):
        from checks.weaverfam import make_state
        st = make_state(ctx, L, kind)
        w = st.w
        vs = list(w.x) if axis == "x" else list(w.y)
        n = len(vs)
        lo, hi = ctx.real("lo"), ctx.real("hi")
        ctx.assume(ctx.lt(lo, hi))
        # precondition: no series the operation renormalises is constant
        for series in ((w.x, w.reference_x, w.original_x) if axis == "x" else (w.y, w.reference_y, w.original_y)):
            sv = list(series)
            ctx.assume(ctx.Or(*[ctx.ne(sv[i], sv[0]) for i in range(1, len(sv))]))
        x_before = list(w.x)
        (w.normalize_x if axis == "x" else w.normalize_y)(lo, hi)
        gx, gy = w.get()
        out = list(gx) if axis == "x" else list(gy)
        ctx.note("out", gx if axis == "x" else gy)
        ctx.claim("normalize:length-kept", len(out) == n and len(gx) == len(gy))
        V = [ctx.exact(v) for v in vs] if not ctx.symbolic else vs
        for i in range(n):
            is_min = ctx.And(*[V[i] <= V[j] for j in range(n)])
            is_max = ctx.And(*[V[i] >= V[j] for j in range(n)])
            ctx.claim("min->min_val", ctx.Implies(is_min, ctx.eq(out[i], lo)), {"i": i, "kind": kind, "axis": axis})
            ctx.claim("max->max_val", ctx.Implies(is_max, ctx.eq(out[i], hi)), {"i": i, "kind": kind, "axis": axis})
        for i in range(n - 1):
            ctx.claim("order-preserved", ctx.Implies(V[i] < V[i + 1], ctx.lt(out[i], out[i + 1])), {"i": i})
            for j in range(i + 1, n - 1):
                ctx.claim("relative-spacing-preserved",
                          ctx.eq((out[i + 1] - out[i]) * (vs[j + 1] - vs[j]), (out[j + 1] - out[j]) * (vs[i + 1] - vs[i])), {"i": i, "j": j})
        if axis == "y":
            for i in range(n):
                ctx.claim("other-axis-untouched", ctx.eq(gx[i], x_before[i]), {"i": i})

META = {
    "explanation": "process.trend/linear_trend/normalize and the Weaver's trend, shift_*, scale_*, normalize_* executed on "
                   "symbolic series. The trend function is an uninterpreted function (one fresh solver real per "
                   "distinct argument term), so y'_i = y_i + f(x_i) [or f(x_i/(x_last-x_first))], zero-trend identity "
                   "and additivity hold for every pure callable. Normalisation: min/max are located by NumPy's own "
                   "reductions (each comparison forks), claims are non-linear but tiny.",
    "bounds": {"quick": "series of 2..6 points (normalize: 2..4, incl. after scale_x by any non-zero factor; normalize_x/_y from arbitrary reshaped / other-range / gridded states of 2..3 (+2) points)", "thorough": "series of 2..10 points (normalize: 2..5)"},
    "outside": ["longer series", "impure trend callables", "float rounding"],
    "assumptions": ["x strictly increasing", "normalize: array not constant and min_val < max_val (documented use)",
                    "scale != 0"],
    "stubs": [],
}

if __name__ == "__main__":
    ap = argparse.ArgumentParser()
    ap.add_argument("--tier", default="quick")
    a = ap.parse_args()
    sys.exit(run_check("C14", "pointwise maps", [Trend(), ShiftScale(), Normalize(), NormalizeFromState()], a.tier, META))
