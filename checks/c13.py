"""C13 - interpolation honours the data and the requested grid."""
import argparse
import sys

import numpy as np

from symx.runner import Family, arr, increasing, run_check
from symx.core import Sym


def o_last_at_or_before(X, Y, q, left):
    if q < X[0]:
        return left
    v = Y[0]
    for i in range(len(X)):
        if X[i] <= q:
            v = Y[i]
    return v


def o_linear_inside(X, Y, q):
    """straight line between the two neighbouring samples; None outside the data range"""
    if q < X[0] or q > X[-1]:
        return None
    for i in range(len(X) - 1):
        if X[i] <= q and q <= X[i + 1]:
            return Y[i] + (Y[i + 1] - Y[i]) * ((q - X[i]) / (X[i + 1] - X[i]))
    return None


class Constant(Family):
    name = "constant-method"
    doc = "'constant': value of the last sample at or before each new point; first value / `left` before the data"

    def configs(self, tier):
        Ls = (2, 3, 4, 5) if tier == "quick" else (2, 3, 4, 5, 6)
        Qs = (1, 2, 3) if tier == "quick" else (1, 2, 3, 4)
        return [{"L": L, "Q": Q, "left": lf} for L in Ls for Q in Qs for lf in (False, True)]

    def run(self, ctx, inst, L, Q, left):
        from traffic_weaver import process
        xs, ys, qs = ctx.reals("x", L), ctx.reals("y", L), ctx.reals("q", Q)
        increasing(ctx, xs)
        for a, b in zip(qs, qs[1:]):
            ctx.assume(ctx.le(a, b))
        kw = {}
        lv = ys[0]
        if left:
            lv = ctx.real("left")
            kw["left"] = lv
        out = process.interpolate(arr(ctx, xs), arr(ctx, ys), arr(ctx, qs), method="constant", **kw)
        ctx.note("out", out)
        X = [ctx.exact(v) for v in xs] if not ctx.symbolic else xs
        ctx.claim("constant:length", len(out) == Q)
        for j in range(Q):
            qq = ctx.exact(qs[j]) if not ctx.symbolic else qs[j]
            ctx.claim("constant:last-sample-at-or-before", ctx.same(out[j], o_last_at_or_before(X, ys, qq, lv)), {"j": j})
        out2 = process.interpolate(arr(ctx, xs), arr(ctx, ys), arr(ctx, xs), method="constant")
        for i in range(L):
            ctx.claim("constant:at-data-returns-data", ctx.same(out2[i], ys[i]), {"i": i})


class ConstantIntegerGrid(Family):
    name = "constant-method-integer-typed-grid"
    doc = "'constant' on an integer-typed new grid (np.arange / lists of ints) with symbolic real values"

    def configs(self, tier):
        return [{"x": [0, 2, 3, 7], "q": [-1, 2, 5], "left": lf} for lf in (False, True)] + \
               [{"x": [0, 2, 3, 7], "q": [0, 7, 9], "left": False},
                {"x": [-3, -1, 4], "q": [-3, -1, 4], "left": False}, {"x": [1, 2], "q": [0, 1, 1], "left": True}]

    def run(self, ctx, inst, x, q, left):
        from traffic_weaver import process
        ys = ctx.reals("y", len(x))
        kw = {}
        lv = ys[0]
        if left:
            lv = ctx.real("left")
            kw["left"] = lv
        xa, qa = np.array(x, dtype=np.int64), np.array(q, dtype=np.int64)
        out = process.interpolate(xa, arr(ctx, ys), qa, method="constant", **kw)
        ctx.note("out", out)
        ctx.claim("constant:length", len(out) == len(q))
        for j, qq in enumerate(q):
            ctx.claim("constant:last-sample-at-or-before", ctx.eq(out[j], o_last_at_or_before(x, ys, qq, lv)), {"j": j, "q": qq})


class Linear(Family):
    name = "linear-method"
    doc = "'linear' (numpy.interp, modelled by its documented definition): neighbours' straight line, data at data, affine reproduced"

    def configs(self, tier):
        Ls = (2, 3, 4) if tier == "quick" else (2, 3, 4, 5)
        return [{"L": L, "Q": Q} for L in Ls for Q in ((1, 2) if tier == "quick" else (1, 2, 3))]

    def run(self, ctx, inst, L, Q):
        from traffic_weaver import process
        xs, ys, qs = ctx.reals("x", L), ctx.reals("y", L), ctx.reals("q", Q)
        increasing(ctx, xs)
        for a, b in zip(qs, qs[1:]):
            ctx.assume(ctx.le(a, b))
        out = process.interpolate(arr(ctx, xs), arr(ctx, ys), arr(ctx, qs), method="linear")
        ctx.note("out", out)
        X = [ctx.exact(v) for v in xs] if not ctx.symbolic else xs
        for j in range(Q):
            qq = ctx.exact(qs[j]) if not ctx.symbolic else qs[j]
            e = o_linear_inside(X, ys, qq)
            if e is not None:
                ctx.claim("linear:straight-line-between-neighbours", ctx.eq(out[j], e), {"j": j})
        out2 = process.interpolate(arr(ctx, xs), arr(ctx, ys), arr(ctx, xs), method="linear")
        for i in range(L):
            ctx.claim("linear:at-data-returns-data", ctx.eq(out2[i], ys[i]), {"i": i})
        p, r = ctx.real("p"), ctx.real("r")
        aff = [p * v + r for v in xs]
        out3 = process.interpolate(arr(ctx, xs), arr(ctx, aff), arr(ctx, qs), method="linear")
        for j in range(Q):
            qq = ctx.exact(qs[j]) if not ctx.symbolic else qs[j]
            inside = (qq >= X[0]) & (qq <= X[-1]) if ctx.symbolic else (X[0] <= qq <= X[-1])
            ctx.claim("linear:reproduces-affine-data", ctx.Implies(inside, ctx.eq(out3[j], p * qs[j] + r)), {"j": j})
        if ctx.symbolic:
            calls = inst.calls("np.interp")
            ok = len(calls) == 3 and calls[0]["left"] is None and calls[0]["right"] is None
            ctx.claim("linear:dispatch(np.interp(new_x, x, y))", ok)


class SplineRoles(Family):
    name = "cubic-and-spline-dispatch"
    doc = "'cubic' / 'spline': (x, y, new_x, kwargs) reach SciPy in the right roles; contract stub returns data at data"
    differential = False

    def configs(self, tier):
        return [{"L": L, "method": m} for L in ((4, 5) if tier == "quick" else (4, 5, 6, 7)) for m in ("cubic", "spline")]

    def run(self, ctx, inst, L, method):
        from traffic_weaver import process
        xs, ys = ctx.reals("x", L), ctx.reals("y", L)
        increasing(ctx, xs)
        qs = ctx.reals("q", 2)
        out = process.interpolate(arr(ctx, xs), arr(ctx, ys), arr(ctx, xs), method=method)
        for i in range(L):
            ctx.claim(method + ":at-data-returns-data", ctx.eq(out[i], ys[i]), {"i": i})
        if not ctx.symbolic:
            p, r = 1.5, -2.0
            aff = np.array([p * float(v) + r for v in xs])
            q = np.linspace(float(xs[0]), float(xs[-1]), 7)
            o3 = process.interpolate(arr(ctx, xs), aff, q, method=method)
            ctx.claim(method + ":reproduces-affine-data(replay only)", bool(np.allclose(o3, p * q + r, atol=1e-7)))
            return
        process.interpolate(arr(ctx, xs), arr(ctx, ys), arr(ctx, qs), method=method)
        same = lambda A, B: len(A) == len(B) and all(ctx.same(a, b) is True for a, b in zip(list(A), list(B)))
        if method == "cubic":
            c = inst.calls("CubicSpline")
            ev = inst.calls("CubicSpline.__call__")
            ok = len(c) == 2 and same(c[1]["x"], xs) and same(c[1]["y"], ys) and not c[1]["kwargs"] and same(ev[1]["at"], qs)
        else:
            c = inst.calls("splrep")
            ev = inst.calls("BSpline.__call__")
            ok = len(c) == 2 and same(c[1]["x"], xs) and same(c[1]["y"], ys) and c[1]["s"] is None and c[1]["k"] == 3 \
                and same(ev[1]["at"], qs)
        ctx.claim(method + ":arguments-in-the-right-roles", ok)
        # kwargs are forwarded
        if method == "cubic":
            process.interpolate(arr(ctx, xs), arr(ctx, ys), arr(ctx, qs), method="cubic", bc_type="natural")
            c = inst.calls("CubicSpline")
            ctx.claim("cubic:kwargs-forwarded", c[-1]["kwargs"] == {"bc_type": "natural"} and not c[-1]["args"])
        if method == "spline":
            s = ctx.real("s")
            ctx.assume(ctx.le(0, s))
            process.interpolate(arr(ctx, xs), arr(ctx, ys), arr(ctx, qs), method="spline", s=s)
            c = inst.calls("splrep")
            ctx.claim("spline:kwargs-forwarded", ctx.same(c[-1]["s"], s) is True)


class WeaverGridOtherRange(Family):
    name = "weaver-interpolate-grid-uses-working-range"
    doc = "interpolate(n) spans the WORKING series' range also when the reference spans another one"

    def configs(self, tier):
        return [{"L": 3, "n": n, "method": m} for n in (2, 3, 4) for m in ("linear", "constant")]

    def run(self, ctx, inst, L, n, method):
        from checks.weaverfam import make_state
        st = make_state(ctx, L, "reshaped-other-range")
        w = st.w
        x0, x1 = w.x[0], w.x[-1]
        rx = list(w.reference_x)
        w.interpolate(n, method=method)
        gx = w.get()[0]
        ctx.claim("interpolate(n):exactly-n-points", len(gx) == n)
        ctx.claim("interpolate(n):same-end-points", ctx.And(ctx.same(gx[0], x0), ctx.same(gx[n - 1], x1)))
        ctx.claim("interpolate(n):reference-untouched", len(w.reference_x) == len(rx) and all(
            (ctx.same(a, b) is True) or (not ctx.symbolic and ctx.same(a, b)) for a, b in zip(list(w.reference_x), rx)))


class WeaverGridIntegerTypedSeries(Family):
    name = "weaver-interpolate-real-grid-on-integer-typed-series"
    doc = ("a Weaver whose abscissae are integer-typed (x omitted -> arange, list of ints, int64 array) interpolated onto an explicit "
           "grid of REAL points: the grid is used as given (not narrowed to the series' type) and the values follow the definition")

    def configs(self, tier):
        return [{"xkind": k, "method": m, "G": G} for k in ("default", "int-list", "int64") for m in ("linear", "constant")
                for G in ((1, 2) if tier == "quick" else (1, 2, 3))]

    def run(self, ctx, inst, xkind, method, G):
        from traffic_weaver import Weaver
        ctx.typed_inputs = True
        xi = [0, 1, 2, 3] if xkind == "default" else [-2, 0, 1, 4]
        L = len(xi)
        ys = ctx.reals("y", L)
        mids = ctx.reals("g", G)
        increasing(ctx, mids)
        ctx.assume(ctx.And(ctx.lt(xi[0], mids[0]), ctx.lt(mids[-1], xi[-1])))
        grid = [ctx.const(xi[0]) if ctx.symbolic else float(xi[0])] + list(mids) + [ctx.const(xi[-1]) if ctx.symbolic else float(xi[-1])]
        yin = arr(ctx, ys)
        w = Weaver(None, yin) if xkind == "default" else Weaver(list(xi) if xkind == "int-list" else np.array(xi, dtype=np.int64), yin)
        w.interpolate(new_x=arr(ctx, grid), method=method)
        gx, gy = w.get()
        n = len(grid)
        ctx.note("gx", gx)
        ctx.claim("explicit-grid:used-as-given", len(gx) == n and len(gy) == n and bool(ctx.And(*[ctx.eq(a, b) for a, b in zip(list(gx), grid)]))
                  if not ctx.symbolic else (len(gx) == n and len(gy) == n and ctx.And(*[ctx.eq(a, b) for a, b in zip(list(gx), grid)])))
        if len(gx) != n or len(gy) != n:
            return
        for i in range(n - 1):
            ctx.claim("explicit-grid:strictly-increasing", ctx.lt(gx[i], gx[i + 1]), {"i": i})
        X = [ctx.const(v) if ctx.symbolic else float(v) for v in xi]
        for i, q in enumerate(grid):
            Q = ctx.exact(q) if not ctx.symbolic else q
            # the sample interval holding the grid point
            j = 0
            while j < L - 2 and bool(Q >= X[j + 1]):
                j += 1
            if bool(Q == X[L - 1]):
                exp = ys[L - 1]
            elif method == "constant":
                exp = ys[j]
            else:
                exp = ys[j] + (ys[j + 1] - ys[j]) * (q - X[j]) / (X[j + 1] - X[j])
            ctx.claim("explicit-grid:value-follows-the-definition", ctx.eq(gy[i], exp), {"i": i, "j": j, "method": method})


class WeaverGrid(Family):
    name = "weaver-interpolate-grid"
    doc = "Weaver.interpolate(n): exactly n equally spaced points over the same range; explicit grid must share both end points"

    def configs(self, tier):
        ns = (2, 3, 4, 5, 6) if tier == "quick" else (2, 3, 4, 5, 6, 8, 10)
        return [{"L": L, "n": n, "method": m} for L in ((4, 5) if tier == "quick" else (4, 5, 6, 7)) for n in ns
                for m in ("linear", "constant", "cubic", "spline")]

    def run(self, ctx, inst, L, n, method):
        from traffic_weaver import Weaver
        xs, ys = ctx.reals("x", L), ctx.reals("y", L)
        increasing(ctx, xs)
        w = Weaver(arr(ctx, xs), arr(ctx, ys)).interpolate(n, method=method)
        gx, gy = w.get()
        ctx.claim("interpolate(n):exactly-n-points", len(gx) == n and len(gy) == n, {"method": method})
        if len(gx) == n and len(gy) == n:
            ctx.claim("interpolate(n):same-end-points", ctx.And(ctx.same(gx[0], xs[0]), ctx.same(gx[n - 1], xs[L - 1])))
            step = (xs[L - 1] - xs[0]) / (n - 1)
            for i in range(n - 1):
                ctx.claim("interpolate(n):equally-spaced", ctx.eq(gx[i + 1] - gx[i], step), {"i": i})
            if method in ("linear", "constant"):
                ctx.claim("interpolate(n):end-values", ctx.And(ctx.eq(gy[0], ys[0]), ctx.eq(gy[n - 1], ys[L - 1])), {"method": method})
        # explicit grid with the same end points is accepted as given
        mid = ctx.real("mid")
        ctx.assume(ctx.And(ctx.lt(xs[0], mid), ctx.lt(mid, xs[L - 1])))
        grid = [xs[0], mid, xs[L - 1]]
        w2 = Weaver(arr(ctx, xs), arr(ctx, ys)).interpolate(new_x=arr(ctx, grid), method=method)
        g2x, g2y = w2.get()
        ctx.claim("explicit-grid:used-as-given", len(g2x) == 3 and len(g2y) == 3 and all(
            (ctx.same(a, b) is True) or (not ctx.symbolic and ctx.same(a, b)) for a, b in zip(list(g2x), grid)))
        # a grid whose end point differs is refused
        d = ctx.real("d")
        ctx.assume(ctx.ne(d, 0))
        for which in (0, 2):
            bad = list(grid)
            bad[which] = bad[which] + d
            try:
                Weaver(arr(ctx, xs), arr(ctx, ys)).interpolate(new_x=arr(ctx, bad), method=method)
                ctx.claim("explicit-grid:different-end-point-refused", False, {"which": which})
            except ValueError:
                ctx.claim("explicit-grid:different-end-point-refused", True)


META = {
    "explanation": "process.interpolate / Weaver.interpolate executed symbolically. 'constant' runs the real "
                   "_piecewise_constant_interpolate and the real lower-neighbour scan on symbolic x, y and new grid "
                   "(each comparison forks: points before, on, between and beyond the samples are separate paths) "
                   "against the declarative definition. 'linear' dispatches into numpy.interp, which is modelled by "
                   "its documented definition (validated against the real one on every run), so the claims certify "
                   "argument order and pass-through and the derived facts. 'cubic'/'spline' go to contract stubs: what "
                   "is certified is that (x, y, new_x, kwargs) arrive in the right roles and that an interpolating "
                   "spline is requested (s defaults to 0); SciPy's own numerics are an assumption. Weaver level: "
                   "interpolate(n) yields n equally spaced points with the same end points; explicit grids with a "
                   "different end point (symbolic offset != 0) raise ValueError.",
    "bounds": {"quick": "series of 2..4 points, new grids of 1..3 points; Weaver: 4 points, n in 2..5; integer-typed series (x omitted / list of ints / int64) with explicit real grids of 3..4 points",
               "thorough": "series of 2..5 (splines 4..7) points, grids of 1..4 points; Weaver: 4..6 points, n up to 8"},
    "outside": ["'to rounding' statements about CubicSpline/FITPACK (checked only in the float replay of the stubbed "
                "families, not solver-decided)", "longer series", "float rounding"],
    "assumptions": ["x strictly increasing, new grid sorted",
                    "numpy.interp == its documented piecewise-linear definition with constant extension",
                    "CubicSpline / splrep(s=0)+BSpline interpolate the data (SciPy contract)"],
    "stubs": ["numpy.interp (definition model)", "scipy CubicSpline, splrep, BSpline (contract stubs)"],
}

if __name__ == "__main__":
    ap = argparse.ArgumentParser()
    ap.add_argument("--tier", default="quick")
    a = ap.parse_args()
    sys.exit(run_check("C13", "interpolation", [Constant(), ConstantIntegerGrid(), Linear(), SplineRoles(), WeaverGrid(), WeaverGridOtherRange(), WeaverGridIntegerTypedSeries()], a.tier, META))
