"""C16 - smoothing and the spline function respect the smoothing condition."""
import argparse
import sys

from contextlib import contextmanager

import numpy as np

from symx.runner import Family, arr, increasing, run_check
from symx.core import Sym


def variance(vals):
    n = len(vals)
    mean = 0
    for v in vals:
        mean = mean + v
    mean = mean / n
    tot = 0
    for v in vals:
        tot = tot + (v - mean) * (v - mean)
    return tot / n


@contextmanager
def spline_calls(ctx, inst):
    """calls reaching splrep / the returned spline: stub records (symbolic) or recording wrappers around the real
    SciPy functions (replay)"""
    if ctx.symbolic:
        yield (lambda: inst.calls("splrep")), (lambda: inst.calls("BSpline.__call__"))
        return
    from traffic_weaver import process
    rec, ev = [], []
    real_splrep, real_bspline = process.splrep, process.BSpline

    def splrep(x, y, w=None, xb=None, xe=None, k=3, task=0, s=None, t=None, full_output=0, per=0, quiet=1):
        rec.append({"x": np.array(x, dtype=float), "y": np.array(y, dtype=float), "s": s, "k": k, "w": w, "t": t, "per": per})
        return real_splrep(x, y, w=w, xb=xb, xe=xe, k=k, task=task, s=s, t=t, full_output=full_output, per=per, quiet=quiet)

    class BS(real_bspline):
        # a subclass, so that attributes the code sets on the returned object (extrapolate, ...) act on the real spline
        def __call__(self, q, *a, **kw):
            ev.append({"at": np.array(q, dtype=float)})
            return real_bspline.__call__(self, q, *a, **kw)
    process.splrep, process.BSpline = splrep, BS
    try:
        yield (lambda: rec), (lambda: ev)
    finally:
        process.splrep, process.BSpline = real_splrep, real_bspline


class Smooth(Family):
    name = "smooth-and-to-function"
    doc = "what reaches splrep, default s, evaluation grid, smoothing condition under the FITPACK contract"
    differential = False
    query_timeout_ms = 30000

    def configs(self, tier):
        Ls = (5, 6) if tier == "quick" else (5, 6, 7, 8)
        out = [{"L": L, "mode": m, "state": "fresh"} for L in Ls for m in ("smooth-s", "smooth-0", "smooth-default", "process-default",
                                                                          "to_function-default", "to_function-s")]
        # the same through Weavers in arbitrary states: accumulated scale factors, working != reference != original
        out += [{"L": 5, "mode": m, "state": st} for st in ("tracked", "reshaped-other-range")
                for m in ("smooth-s", "smooth-0", "to_function-default", "to_function-s")]
        return out

    def run(self, ctx, inst, L, mode, state="fresh"):
        import warnings
        from traffic_weaver import Weaver, process
        xs, ys = ctx.reals("x", L), ctx.reals("y", L)
        increasing(ctx, xs)
        if ctx.symbolic:
            same = lambda A, B: len(A) == len(B) and all(ctx.same(a, b) is True for a, b in zip(list(A), list(B)))
            tol = 0
        else:
            same = lambda A, B: len(A) == len(B) and all(float(a) == float(b) for a, b in zip(list(A), list(B)))
            tol = 0.002
        s = None
        if mode in ("smooth-s", "to_function-s"):
            s = ctx.real("s")
            ctx.assume(ctx.lt(0, s))
        elif mode == "smooth-0":
            s = ctx.const(0)
        if state == "fresh":
            w = Weaver(arr(ctx, xs), arr(ctx, ys))
        else:
            from checks.weaverfam import make_state
            w = make_state(ctx, L if state == "tracked" else L - 2, state).w
            xs, ys = list(w.x), list(w.y)
            L = len(xs)
        with spline_calls(ctx, inst) as (calls_of, evals_of), warnings.catch_warnings():
            warnings.simplefilter("error", RuntimeWarning)
            try:
                self.body(ctx, w, mode, s, xs, ys, L, same, tol, calls_of, evals_of)
            except RuntimeWarning:
                return          # FITPACK reports non-convergence: discarded, not judged (as the property says)

    def body(self, ctx, w, mode, s, xs, ys, L, same, tol, calls_of, evals_of):
        from traffic_weaver import process
        if mode.startswith("smooth"):
            w.smooth(s)
            gx, gy = w.get()
            calls, ev = calls_of(), evals_of()
            ctx.claim("splrep-called-once", len(calls) == 1)
            c = calls[0]
            ctx.claim("splrep-receives-(x,y)", same(c["x"], xs) and same(c["y"], ys))
            ctx.claim("default-degree-and-no-weights", c["k"] == 3 and c["w"] is None and c["t"] is None and not c["per"])
            ctx.claim("evaluated-at-existing-x", len(ev) == 1 and same(ev[0]["at"], xs))
            ctx.claim("x-and-length-unchanged", same(gx, xs) and len(gy) == L)
            if mode == "smooth-default":
                ctx.claim("default-s=len(y)*var(y)", ctx.eq(c["s"], L * variance(ys)))
            else:
                ctx.claim("s-forwarded", ctx.eq(c["s"], s))
            if mode == "smooth-0":
                for i in range(L):
                    ctx.claim("s=0-is-identity(contract)", ctx.eq(gy[i], ys[i]), {"i": i})
            else:
                tot = 0
                for i in range(L):
                    tot = tot + (gy[i] - ys[i]) * (gy[i] - ys[i])
                bound = s if mode == "smooth-s" else L * variance(ys)
                ctx.claim("summed-squared-deviation<=s(contract)", ctx.le(tot, bound * (1 + tol)))
        elif mode == "process-default":
            process.spline_smooth(arr(ctx, xs), arr(ctx, ys))
            c = calls_of()[0]
            ctx.claim("default-s=len(y)*var(y)", ctx.eq(c["s"], L * variance(ys)))
            ctx.claim("splrep-receives-(x,y)", same(c["x"], xs) and same(c["y"], ys))
            ctx.claim("default-degree-and-no-weights", c["k"] == 3 and c["w"] is None)
        else:
            f = w.to_function() if mode == "to_function-default" else w.to_function(s)
            c = calls_of()[0]
            ctx.claim("splrep-receives-(x,y)", same(c["x"], xs) and same(c["y"], ys))
            ctx.claim("default-degree-and-no-weights", c["k"] == 3 and c["w"] is None)
            if mode == "to_function-default":
                ctx.claim("to_function-default-s=0", ctx.eq(c["s"], 0))
                vals = f(arr(ctx, xs))
                for i in range(L):
                    ctx.claim("to_function-passes-through-samples(contract)", ctx.eq(vals[i], ys[i]), {"i": i})
            else:
                ctx.claim("s-forwarded", ctx.eq(c["s"], s))
            gx, gy = w.get()
            ctx.claim("to_function-leaves-series-alone", same(gx, xs) and same(gy, ys))
            # the function reflects the CURRENT series: after a later operation a new call fits the new values
            d = ctx.real("shift")
            w.shift_y(d)
            w.to_function() if mode == "to_function-default" else w.to_function(s)
            c2 = calls_of()[-1]
            ctx.claim("to_function-not-stale-after-later-operation",
                      len(calls_of()) >= 2 and same(c2["x"], xs) and len(c2["y"]) == L and
                      ctx.And(*[ctx.eq(a, b + d) for a, b in zip(list(c2["y"]), ys)]))


class ToFunctionAfterHistory(Family):
    name = "to_function-after-history"
    doc = "after (optionally a reshaping operation and) any domain operation, to_function() fits the CURRENT series"
    differential = False
    query_timeout_ms = 30000

    def configs(self, tier):
        from checks.weaverfam import domain_ops
        pres = (None, "smooth", "recreate:LinearFixedRFA", "trend")
        out = []
        for pre in pres:
            for d in domain_ops("quick"):
                if d["op"] == "normalize_y" and pre is not None:
                    continue          # min/max over reshaped values: orderings multiply, nothing new for this claim
                out.append({"L": 5, "pre": pre, "d": d})
        # the other order: a domain operation first, then an operation that changes the values, then to_function()
        for d in domain_ops("quick"):
            for post in (("trend", "smooth", "noise") if d["op"] == "append_one_sample" else ("trend",)):
                if d["op"] == "normalize_y":
                    continue
                out.append({"L": 5, "pre": None, "d": d, "post": post})
        return out

    def run(self, ctx, inst, L, pre, d, post=None):
        import warnings
        from traffic_weaver import Weaver
        from checks.weaverfam import apply_domain, apply_reshape
        xs, ys = ctx.reals("x", L), ctx.reals("y", L)
        increasing(ctx, xs)
        w = Weaver(arr(ctx, xs), arr(ctx, ys))
        with spline_calls(ctx, inst) as (calls_of, evals_of), warnings.catch_warnings():
            warnings.simplefilter("error", RuntimeWarning)
            try:
                if pre is not None:
                    apply_reshape(ctx, w, pre, tag="pre_")
                apply_domain(ctx, w, d, tag="d_")
                if len(w.x) < 5:
                    return            # the property speaks of series of >= 5 points (a cubic spline needs > 3)
                if post is not None:
                    apply_reshape(ctx, w, post, tag="post_")
                n0 = len(calls_of())
                f = w.to_function()
                cx_, cy_ = w.get()
                info = {"pre": pre, "op": d["op"], "post": post}
                calls = calls_of()
                # (whether a new fit is made is an implementation matter - a correctly invalidated cache would be
                #  fine; what is claimed is what the returned function does)
                if len(calls) == n0 + 1:
                    c = calls[-1]
                    okx = len(c["x"]) == len(cx_) and ctx.And(*[ctx.eq(a, b) for a, b in zip(list(c["x"]), list(cx_))])
                    oky = len(c["y"]) == len(cy_) and ctx.And(*[ctx.eq(a, b) for a, b in zip(list(c["y"]), list(cy_))])
                    ctx.claim("splrep-receives-current-(x,y)", ctx.And(okx, oky), info)
                vals = f(cx_)
                for i in range(len(cx_)):
                    ctx.claim("to_function-passes-through-current-samples(contract)",
                              ctx.le((vals[i] - cy_[i]) * (vals[i] - cy_[i]), 0 if ctx.symbolic else 1e-12 * (1 + abs(float(cy_[i])) ** 2)), dict(info, i=i))
            except RuntimeWarning:
                return


META = {
    "explanation": "process.spline_smooth, Weaver.smooth and Weaver.to_function executed on symbolic series with "
                   "splrep/BSpline replaced by a recording contract stub: the claims decide exactly what "
                   "traffic-weaver is responsible for - (x, y) reach splrep in that order with default degree and no "
                   "weights, s is forwarded, an omitted s becomes len(y)*var(y) (np.std runs natively on the exact "
                   "terms through a sqrt witness), to_function defaults to s = 0, smooth evaluates at the existing x "
                   "and leaves x and the length alone. The statements about the spline itself (sum of squared "
                   "deviations <= s, identity for s = 0) follow from the stub's contract "
                   "sum((g(x_i)-y_i)^2) <= s, i.e. they are assumptions about FITPACK, made explicit.",
    "bounds": {"quick": "series of 5..6 points; to_function after [none|smooth|recreate|trend] + each of the 14 domain operations (5 points), and each domain operation + [trend; for append_one_sample also smooth, noise] + to_function", "thorough": "series of 5..8 points; same histories"},
    "outside": ["FITPACK's numerics (convergence, 0.1% tolerance, identity on affine data): contract stub, assumption",
                "float rounding"],
    "assumptions": ["x strictly increasing", "FITPACK contract: the returned spline g satisfies sum((g(x_i)-y_i)^2) <= s; "
                    "s = 0 interpolates"],
    "stubs": ["scipy.interpolate.splrep / BSpline (recording contract stub)"],
}

if __name__ == "__main__":
    ap = argparse.ArgumentParser()
    ap.add_argument("--tier", default="quick")
    a = ap.parse_args()
    sys.exit(run_check("C16", "smoothing", [Smooth(), ToFunctionAfterHistory()], a.tier, META))
