"""C15 - noise is purely additive and obeys the signal-to-noise definition."""
import argparse
import sys
from contextlib import contextmanager
from fractions import Fraction

import numpy as np

from symx.runner import Family, arr, increasing, run_check
from symx.core import Sym


@contextmanager
def normal_calls(ctx, inst):
    """the calls reaching numpy.random.normal: stub records (symbolic) / patched recorder (replay)"""
    if ctx.symbolic:
        yield lambda: inst.calls("np.random.normal")
        return
    rec = []
    orig = np.random.normal

    def fake(loc=0.0, scale=1.0, size=None):
        n = int(np.prod(size)) if size is not None else 1
        draws = np.array([((7 * i + 3) % 11 - 5) / 4.0 for i in range(n)])
        rec.append({"loc": loc, "scale": scale, "size": size, "draws": draws})
        return draws.reshape(size) if size is not None else draws[0]
    np.random.normal = fake
    try:
        yield lambda: rec
    finally:
        np.random.normal = orig


def mean_sq(vals):
    tot = 0
    for v in vals:
        tot = tot + v * v
    return tot / len(vals)


class Noise(Family):
    name = "noise-gauss"
    doc = "process.noise_gauss / Weaver.noise: one zero-mean draw of the signal's shape with the documented scale, added"
    query_timeout_ms = 30000

    def configs(self, tier):
        out = []
        Ls = (1, 2, 3, 4, 5, 6) if tier == "quick" else (1, 2, 3, 4, 5, 6, 8, 10)
        for L in Ls:
            for via in ("process", "weaver"):
                for mode in ("std", "linear-sym", "linear-array", "db-0", "db-10", "db-20", "db--10", "db-5", "db-sym", "db-array"):
                    if tier == "quick" and L >= 5 and mode in ("db-5", "db-array", "linear-array"):
                        continue
                    out.append({"L": L, "via": via, "mode": mode})
        # typed input: an integer-typed signal (list of Python ints / int64 array) with a real-valued per-sample SNR
        for via in ("process", "weaver"):
            for sig in ("int-list", "int-array"):
                out.append({"L": 4, "via": via, "mode": "linear-array", "signal": sig})
        return out

    def run(self, ctx, inst, L, via, mode, signal=None):
        from traffic_weaver import process, Weaver
        if signal:
            ctx.typed_inputs = True
            ints = [1, -3, 2, 0, 4, 2][:L]          # mean of squares 7/2: exact in float64
            ys = [ctx.const(v) for v in ints] if ctx.symbolic else [float(v) for v in ints]
        else:
            ys = ctx.reals("y", L)
        xs = ctx.reals("x", L)
        increasing(ctx, xs)
        kw = {}
        snr = None
        snr_terms = None
        if mode == "std":
            std = ctx.real("std")
            ctx.assume(ctx.le(0, std))
            kw["std"] = std
        elif mode == "linear-sym":
            snr = ctx.real("snr")
            ctx.assume(ctx.lt(0, snr))
            kw["snr_in_db"] = False
            snr_terms = [snr] * L
        elif mode == "linear-array":
            sv = ctx.reals("snr", L)
            for v in sv:
                ctx.assume(ctx.lt(0, v))
            snr = arr(ctx, sv)
            kw["snr_in_db"] = False
            snr_terms = sv
        elif mode == "db-sym":
            snr = ctx.real("snr")
            ctx.assume(ctx.And(ctx.le(-40, snr), ctx.le(snr, 60)))
        elif mode == "db-array":
            sv = ([10, 20, 0, -10, 30, 5] * 2)[:L]
            snr = arr(ctx, [ctx.const(v) if ctx.symbolic else float(v) for v in sv])
        else:
            # passed as an exact term in the symbolic run (a Python int would make `10 ** (snr / 10)` a float
            # computation outside the symbolic domain), as a float in the replay
            snr = ctx.const(int(mode[3:])) if ctx.symbolic else float(int(mode[3:]))
        # signal must have power for the SNR definition to make sense
        if mode != "std" and not signal:
            ctx.assume(ctx.Or(*[ctx.ne(v, 0) for v in ys]))
        if signal:
            y_arg = list(ints) if signal == "int-list" else np.array(ints)
        else:
            y_arg = arr(ctx, ys)
        snr_before = list(snr) if isinstance(snr, np.ndarray) else None
        with normal_calls(ctx, inst) as calls:
            if via == "process":
                out = process.noise_gauss(y_arg, snr=snr, **kw)
                rx = None
            else:
                w = Weaver(arr(ctx, xs), y_arg).noise(snr, **kw)
                rx, out = w.get()
            cs = list(calls())
            if snr_before is not None:
                # the caller's per-sample SNR array is an input, not scratch space: a second call with the very same
                # arguments must ask the generator for the same scale
                ctx.claim("snr-array-not-modified", len(snr) == len(snr_before) and ctx.And(*[ctx.eq(a, b) for a, b in zip(list(snr), snr_before)]))
                if via == "process":
                    process.noise_gauss(y_arg if signal else arr(ctx, ys), snr=snr, **kw)
                else:
                    Weaver(arr(ctx, xs), y_arg if signal else arr(ctx, ys)).noise(snr, **kw)
                cs2 = list(calls())
                if len(cs) == 1 and len(cs2) == 2:
                    s1 = list(np.asarray(cs2[0]["scale"], dtype=object).reshape(-1))
                    s2 = list(np.asarray(cs2[1]["scale"], dtype=object).reshape(-1))
                    ctx.claim("same-arguments-same-scale", len(s1) == len(s2) and ctx.And(*[ctx.eq(a, b) for a, b in zip(s1, s2)]))
        ctx.claim("exactly-one-draw", len(cs) == 1, {"calls": len(cs)})
        if len(cs) != 1:
            return
        c = cs[0]
        ctx.claim("zero-mean", (ctx.same(c["loc"], 0) is True) if ctx.symbolic else c["loc"] == 0)
        ctx.claim("draw-has-signal-shape", tuple(np.atleast_1d(c["size"])) == (L,) if c["size"] is not None else False, {"size": c["size"]})
        ctx.claim("length-unchanged", len(out) == L)
        draws = list(np.asarray(c["draws"], dtype=object).reshape(-1))
        if len(out) == L and len(draws) == L:
            for i in range(L):
                ctx.claim("purely-additive", ctx.eq(out[i] - ys[i], draws[i]), {"i": i})
        if rx is not None:
            for i in range(L):
                ctx.claim("x-unchanged", ctx.same(rx[i], xs[i]), {"i": i})
        # the scale
        sc = c["scale"]
        sp = mean_sq(ys)
        scs = list(np.asarray(sc, dtype=object).reshape(-1)) if np.ndim(sc) else [sc]
        if mode == "std":
            ctx.claim("std-used-verbatim", ctx.same(sc, kw["std"]) if np.ndim(sc) == 0 else False)
            return
        ctx.claim("scale-shape", len(scs) in (1, L))
        for i, s_i in enumerate(scs):
            ctx.claim("scale-nonnegative", ctx.le(0, s_i), {"i": i})
            if mode.startswith("linear"):
                ratio = snr_terms[i]
            elif mode == "db-sym":
                ratio = (ctx.const(10) if ctx.symbolic else 10.0) ** (snr / 10)
            elif mode == "db-array":
                e = Fraction(sv[i], 10)
                ratio = (ctx.const(10) ** e) if ctx.symbolic else 10.0 ** float(e)
            else:
                e = Fraction(int(mode[3:]), 10)
                ratio = (ctx.const(10) ** e) if ctx.symbolic else 10.0 ** float(e)
            ctx.claim("scale^2*SNR=mean(y^2)", ctx.eq(s_i * s_i * ratio, sp), {"i": i, "mode": mode})


META = {
    "explanation": "process.noise_gauss / Weaver.noise executed on a symbolic (sign-changing by construction) signal with "
                   "numpy.random.normal replaced by a recording stub returning fresh unconstrained reals: exactly one "
                   "draw, loc == 0, size == the signal's shape, result - input == the drawn array, x and length "
                   "untouched, and for the scale argument scale >= 0 and scale^2 * SNR == mean(y^2) with SNR = snr "
                   "(linear, symbolic scalar and per-sample array) or 10^(snr/10) (dB: exact algebraic values for "
                   "-10, 0, 5, 10, 20 dB and a per-sample array; symbolic dB through an uninterpreted pow shared with "
                   "the oracle), or std verbatim when no SNR is given.",
    "bounds": {"quick": "signals of 1..6 samples; integer-typed signals (list / int64) of 4 samples with a symbolic per-sample SNR", "thorough": "signals of 1..10 samples"},
    "outside": ["seed reproducibility and the empirical SNR of long series: statistical facts about NumPy's generator, "
                "not expressible as an SMT query (stated in DESIGN.md, not claimed)", "float rounding"],
    "assumptions": ["signal not identically zero when an SNR is given", "snr > 0 in linear scale",
                    "numpy.random.normal(loc, scale, size) returns samples of N(loc, scale^2) (stub contract)"],
    "stubs": ["numpy.random.normal (recording stub)"],
}

if __name__ == "__main__":
    ap = argparse.ArgumentParser()
    ap.add_argument("--tier", default="quick")
    a = ap.parse_args()
    sys.exit(run_check("C15", "noise", [Noise()], a.tier, META))
