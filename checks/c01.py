"""C01 - integral matching reproduces every reference interval integral."""
import argparse
import sys

from symx.runner import run_check
from checks.matchfam import MatchAPI, MatchLong, Kernel, KernelAffine, SymbolicAlpha

META = {
    "explanation": "Bounded symbolic execution of match.integral_matching_reference_stretch / _integral_matching_stretch "
                   "and the sorted_array_utils they call, on real NumPy object arrays whose elements are exact "
                   "polynomial terms over solver reals. y, the reference values and the reference positions are "
                   "symbolic; the fixed-point search forks on every comparison, so on-grid / off-grid / out-of-range "
                   "reference positions and all tie patterns are separate, solver-checked paths. On each path the "
                   "integral of the result between consecutive fixed points (recomputed by a declarative oracle) "
                   "must equal the reference integral: `path condition & not claim` is discharged by z3 (most "
                   "identities already close syntactically in the canonical polynomial form).",
    "bounds": {"quick": "API (many intervals, concrete reference positions): N in {9,13}, M in {4,5}, incl. explicit fixed points matched to a strict subset of the reference points that does or does not reach the first / last reference point (also: 2 explicit fixed points against 3 symbolic reference positions); API (symbolic positions): N in {5,7} samples, M in {2,3} reference points, concrete x on uniform and {1,2,3}/2 gap "
                        "patterns, 2x2 rules, alpha in {1,2,1/2}, five ways of designating fixed points; kernel with "
                        "symbolic x: N<=5 (alpha 1), N=4 (alpha 2); kernel on lattice grids N<=8 alpha 1..3; symbolic "
                        "alpha>0 (uninterpreted pow + axioms) N=5",
               "thorough": "API: N in {5,6,7,9}, alpha in {1,2,3,1/2,3/2}, more gap patterns; kernel symbolic x N<=6"},
    "outside": ["more samples than the bound (the property's ~10^3)", "float rounding (terms are exact reals)", "machine-integer overflow for integer-typed x (integer-typed y IS covered: N=5 configurations)",
                "spline smoothing (s != None) after matching", "symbolic x at API level (only at kernel level)", "kernel with symbolic x, N=5, alpha=2: the feasibility of a zero "
                "denominator under the rectangle rule is not decided by z3/nlsat within 20 minutes (dropped from the thorough tier)"],
    "assumptions": ["precondition of the property: selected fixed points pairwise distinct with >= 1 interior sample; "
                    "for explicitly given fixed points, the closest reference points are distinct",
                    "symbolic-alpha family: pow is uninterpreted with axioms pow(0)=0, pow(1)=1, 0<b<1 -> 0<pow(b)<1, "
                    "monotone and congruent in the base"],
    "stubs": [],
}

if __name__ == "__main__":
    ap = argparse.ArgumentParser()
    ap.add_argument("--tier", default="quick")
    a = ap.parse_args()
    sys.exit(run_check("C01", "integral matching", [MatchAPI("C01"), MatchLong("C01"), Kernel("C01"), KernelAffine("C01"),
                                                    SymbolicAlpha("C01")], a.tier, META))
