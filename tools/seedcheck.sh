#!/bin/sh
# usage: tools/seedcheck.sh <seed-name> <property-id> [source-dir-with-patch.diff-and-demo.py] [extra check ids...]
# Confirms a seeded change independently in a fresh scratch worktree of /repo:
#   demo passes on the original, patch applies, test suite's passing set does not shrink,
#   demo fails with the patch; then runs the property's quick check against the patched tree.
# Keeps patch.diff, demo.py, notes.md and meta.json under /verif/seeded/<seed-name>/ and removes the worktree.
set -u
NAME=$1; PROP=$2; SRC=${3:-/tmp/wt/$PROP/seed}
shift 2; [ $# -gt 0 ] && shift
EXTRA="$*"
V=/verif; OUT=$V/seeded/$NAME; WT=/tmp/seedcheck.$$.$NAME
mkdir -p "$OUT"
cp "$SRC/patch.diff" "$OUT/patch.diff"; cp "$SRC/demo.py" "$OUT/demo.py"; [ -f "$SRC/notes.md" ] && cp "$SRC/notes.md" "$OUT/notes.md"
git -C /repo worktree add -q --detach "$WT" HEAD || exit 2
trap 'git -C /repo worktree remove --force "$WT" 2>/dev/null; rm -rf "$WT"' EXIT
run_tests() { (cd "$WT" && /venv/bin/python -m pytest -q -p no:cacheprovider --timeout=900 -o pythonpath=src -o addopts="--doctest-modules -W ignore::DeprecationWarning --ignore-glob=tests/*_integration_test.py" 2>&1 | tail -3 | grep -E "passed|failed" | tail -1); }
demo() { (cd "$WT" && PYTHONPATH="$WT/src" timeout 300 /venv/bin/python "$OUT/demo.py" >/dev/null 2>&1; echo $?); }
T0=$(run_tests); D0=$(demo)
git -C "$WT" apply "$OUT/patch.diff" || { echo "patch does not apply"; exit 2; }
T1=$(run_tests); D1=$(demo)
echo "tests before: $T0"; echo "tests after:  $T1"; echo "demo exit before=$D0 after=$D1"
RES=""
for C in $PROP $EXTRA; do
  LOG=$(cd $V && VERIF_REPO_SRC="$WT/src" timeout 1500 ./run $C quick 2>&1); RC=$?
  NV=$(echo "$LOG" | grep -c "^VIOLATION property=$C")
  FIRST=$(echo "$LOG" | grep -A1 "^VIOLATION" | sed -n 2p | cut -c1-300)
  echo "check $C: exit=$RC violations=$NV $FIRST"
  RES="$RES{\"check\":\"$C\",\"exit\":$RC,\"violation_lines\":$NV,\"first\":$(python3 -c 'import json,sys; print(json.dumps(sys.argv[1]))' "$FIRST")},"
done
python3 - "$OUT" "$NAME" "$PROP" "$T0" "$T1" "$D0" "$D1" "[${RES%,}]" <<'EOF'
import json, sys, subprocess
out, name, prop, t0, t1, d0, d1, res = sys.argv[1:9]
head = subprocess.run(["git", "-C", "/repo", "rev-parse", "--short", "HEAD"], capture_output=True, text=True).stdout.strip()
meta = {"name": name, "breaks_property": prop, "repo_head_when_confirmed": head,
        "tests_before": t0, "tests_after": t1, "demo_exit_before": int(d0), "demo_exit_after": int(d1),
        "confirmed": (t0.split(" passed")[0].split()[-1] == t1.split(" passed")[0].split()[-1]) and d0 == "0" and d1 != "0",
        "checks_run": json.loads(res),
        "what_ran": "tools/seedcheck.sh: fresh worktree of /repo HEAD; pytest (doctests + tests) before/after patch; demo.py before/after; "
                    "./run <ID> quick with VERIF_REPO_SRC pointing at the patched worktree"}
try:
    old = json.load(open(out + "/meta.json"))
    for k in ("needs_to_manifest", "origin"):
        if k in old:
            meta[k] = old[k]
except Exception:
    pass
json.dump(meta, open(out + "/meta.json", "w"), indent=1)
print("confirmed:", meta["confirmed"], " detected:", [(c["check"], c["exit"]) for c in meta["checks_run"]])
EOF
