#!/bin/sh
# Lean regression of seed detection: for each /verif/seeded/<name>/ apply patch.diff in ONE reused scratch worktree of
# /repo and run only the seed's own property check (quick tier) against it; expected exit 1 (VIOLATION) unless meta.json
# says detected=false.  Does not touch meta.json; prints one line per seed.  usage: tools/reseed_fast.sh [first-seed-name]
cd "$(dirname "$0")/.."
WT=/tmp/reseedfast.$$
git -C /repo worktree add -q --detach "$WT" HEAD || exit 2
trap 'git -C /repo worktree remove --force "$WT" 2>/dev/null; rm -rf "$WT"' EXIT
START=${1:-}
for d in seeded/*/; do
  n=$(basename "$d")
  [ -n "$START" ] && [ "$n" \< "$START" ] && continue
  [ -f "$d/meta.json" ] || continue
  P=$(python3 -c "import json; m=json.load(open('$d/meta.json')); print(m['breaks_property'], m.get('detected', True))")
  set -- $P
  git -C "$WT" checkout -q -- . && git -C "$WT" apply "/verif/$d/patch.diff" || { echo "$n: patch does not apply"; continue; }
  VERIF_REPO_SRC="$WT/src" timeout 900 ./run $1 quick > /tmp/reseedfast.out 2>&1; rc=$?
  nv=$(grep -c "^VIOLATION property=$1" /tmp/reseedfast.out)
  echo "$n: check=$1 exit=$rc violations=$nv expected_detected=$2"
done
