"""C10 - nearest-sample search returns the defined neighbour for every query."""
import argparse
import sys

from symx.runner import Family, arr, increasing, run_check, load_tw


def _abs_le(ctx, a, b):
    """|a| <= |b| as a formula (no forking)"""
    return ctx.And(ctx.Or(a <= b, a <= -b), ctx.Or(-a <= b, -a <= -b))


def _abs_lt(ctx, a, b):
    return ctx.And(ctx.Or(a < b, a < -b), ctx.Or(-a < b, -a < -b))


class Scan(Family):
    name = "scan"
    doc = "real find_closest_* scans on symbolic strictly increasing x and sorted queries vs the definition"
    expect = ["lower", "higher", "closest", "dispatch"]
    split_depth = 10        # large shapes: subtrees below 10 decisions become separate tasks

    def configs(self, tier):
        nxs, nqs = ((1, 2, 3, 4, 5, 6), (1, 2, 3, 4)) if tier == "quick" else ((1, 2, 3, 4, 5, 6, 7, 8), (1, 2, 3, 4, 5))
        out = []
        for strat in ("lower", "higher", "closest"):
            for nx in nxs:
                for nq in nqs:
                    for fill in ((True, False) if strat != "closest" else (True,)):
                        for via in ("dispatch", "direct"):
                            if via == "direct" and nq > 2:
                                continue
                            out.append({"strategy": strat, "nx": nx, "nq": nq, "fill": fill, "via": via,
                                        "container": "list" if (nx + nq) % 2 else "array"})
        return out

    def run(self, ctx, inst, strategy, nx, nq, fill, via, container):
        import traffic_weaver.sorted_array_utils as sau
        xs = ctx.reals("x", nx)
        qs = ctx.reals("q", nq)
        increasing(ctx, xs)
        for a, b in zip(qs, qs[1:]):
            ctx.assume(ctx.le(a, b))
        xin = list(xs) if container == "list" else arr(ctx, xs)
        qin = list(qs) if container == "list" else arr(ctx, qs)
        if via == "dispatch":
            idx = sau.find_closest_element_indices_to_values(xin, qin, strategy=strategy, fill_not_valid=fill)
        elif strategy == "lower":
            idx = sau.find_closest_lower_equal_element_indices_to_values(xin, qin, fill)
        elif strategy == "higher":
            idx = sau.find_closest_higher_equal_element_indices_to_values(xin, qin, fill)
        else:
            idx = sau.find_closest_lower_or_higher_element_indices_to_values(xin, qin)
        ctx.claim("dispatch:shape", len(idx) == nq)
        X = [ctx.exact(v) for v in xs]
        Q = [ctx.exact(v) for v in qs]
        for j in range(nq):
            i = int(idx[j])
            q = Q[j]
            if strategy == "lower":
                if i == -1:
                    ok = (not fill) and (q < X[0])
                elif 0 <= i < nx:
                    inside = ctx.And(X[i] <= q, True if i == nx - 1 else q < X[i + 1])
                    ok = ctx.Or(inside, ctx.And(q < X[0], i == 0 and fill))
                else:
                    ok = False
                ctx.claim("lower", ok, {"j": j, "i": i})
            elif strategy == "higher":
                if i == nx:
                    ok = (not fill) and (q > X[-1])
                elif 0 <= i < nx:
                    inside = ctx.And(X[i] >= q, True if i == 0 else X[i - 1] < q)
                    ok = ctx.Or(inside, ctx.And(q > X[-1], i == nx - 1 and fill))
                else:
                    ok = False
                ctx.claim("higher", ok, {"j": j, "i": i})
            else:
                if not (0 <= i < nx):
                    ctx.claim("closest", False, {"j": j, "i": i})
                    continue
                conds = []
                for k in range(nx):
                    if k < i:
                        conds.append(_abs_lt(ctx, X[i] - q, X[k] - q))   # ties go to the lower index
                    elif k > i:
                        conds.append(_abs_le(ctx, X[i] - q, X[k] - q))
                ctx.claim("closest", ctx.And(*conds), {"j": j, "i": i})


def long_grids():
    """long concrete arrays: uniform, 'regular with one missing sample' (first and last steps equal), random gaps"""
    out = {}
    for n in (33, 40, 65):
        out["uniform%d" % n] = [i for i in range(n)]
        out["one-missing%d" % n] = [i for i in range(n + 1) if i != n // 2]
        out["two-missing%d" % n] = [i for i in range(n + 2) if i not in (3, n - 4)]
        out["gaps%d" % n] = [4 * i + (i * i) % 3 for i in range(n)]        # strictly increasing, irregular gaps 2..6
    return out


class LongArray(Family):
    name = "scan-long-concrete-array"
    doc = "arrays of 33..65 concrete elements (beyond any small-size special case) with symbolic queries"
    split_depth = 8

    def configs(self, tier):
        out = []
        for name in sorted(long_grids()):
            if tier == "quick" and not (name.endswith("33") or name.endswith("40")):
                continue
            for strat in ("lower", "higher", "closest"):
                for nq in ((1,) if tier == "quick" else (1, 2)):
                    out.append({"grid": name, "strategy": strat, "nq": nq, "fill": not (strat != "closest" and name.startswith("gaps"))})
        return out

    def carrier(self, xs, grid):
        import numpy as np
        return np.array(xs, dtype=float)

    def grid(self, grid):
        return long_grids()[grid]

    def run(self, ctx, inst, grid, strategy, nq, fill, via="dispatch", qlist=False):
        import traffic_weaver.sorted_array_utils as sau
        xs = self.grid(grid)
        nx = len(xs)
        qs = ctx.reals("q", nq)
        for a, b in zip(qs, qs[1:]):
            ctx.assume(ctx.le(a, b))
        xin = self.carrier(xs, grid)
        qin = list(qs) if qlist else arr(ctx, qs)
        if via == "dispatch":
            idx = sau.find_closest_element_indices_to_values(xin, qin, strategy=strategy, fill_not_valid=fill)
        elif strategy == "lower":
            idx = sau.find_closest_lower_equal_element_indices_to_values(xin, qin, fill)
        elif strategy == "higher":
            idx = sau.find_closest_higher_equal_element_indices_to_values(xin, qin, fill)
        else:
            idx = sau.find_closest_lower_or_higher_element_indices_to_values(xin, qin)
        X = [ctx.exact(float(v)) if not ctx.symbolic else ctx.const(v) for v in xs]
        Q = [ctx.exact(v) for v in qs]
        ctx.claim("dispatch:shape", len(idx) == nq)
        for j in range(nq):
            i, q = int(idx[j]), Q[j]
            if strategy == "lower":
                ok = ((not fill) and (q < X[0])) if i == -1 else (ctx.Or(ctx.And(X[i] <= q, True if i == nx - 1 else q < X[i + 1]),
                                                                       ctx.And(q < X[0], i == 0 and fill)) if 0 <= i < nx else False)
                ctx.claim("lower", ok, {"j": j, "i": i})
            elif strategy == "higher":
                ok = ((not fill) and (q > X[-1])) if i == nx else (ctx.Or(ctx.And(X[i] >= q, True if i == 0 else X[i - 1] < q),
                                                                        ctx.And(q > X[-1], i == nx - 1 and fill)) if 0 <= i < nx else False)
                ctx.claim("higher", ok, {"j": j, "i": i})
            else:
                if not (0 <= i < nx):
                    ctx.claim("closest", False, {"j": j, "i": i})
                    continue
                # with a sorted array it is enough to compare with the two neighbours
                conds = []
                if i > 0:
                    conds.append(_abs_lt(ctx, X[i] - q, X[i - 1] - q))
                if i < nx - 1:
                    conds.append(_abs_le(ctx, X[i] - q, X[i + 1] - q))
                ctx.claim("closest", ctx.And(*conds), {"j": j, "i": i})


INT_GRIDS = {"pos": [0, 1, 2, 3], "gaps": [0, 2, 4], "neg": [-3, -1, 0, 2, 5], "one": [4], "far": [-10, 10]}


class IntegerTypedArray(LongArray):
    name = "scan-integer-typed-array"
    doc = ("integer-typed arrays (int64 ndarray / list of Python ints, incl. negative elements) with symbolic real queries, through "
           "the dispatcher and directly: the queries must not be narrowed to the array's type")
    split_depth = 0

    def configs(self, tier):
        out = []
        for g in sorted(INT_GRIDS):
            for strat in ("lower", "higher", "closest"):
                for nq in ((1, 2) if tier == "quick" else (1, 2, 3)):
                    for fill in ((True, False) if strat != "closest" else (True,)):
                        for via in ("dispatch", "direct"):
                            if via == "direct" and nq > 1:
                                continue
                            out.append({"grid": g + ("-list" if (nq + len(strat)) % 2 else "-int64"), "strategy": strat, "nq": nq,
                                        "fill": fill, "via": via, "qlist": (nq + fill) % 2 == 0})
        return out

    def grid(self, grid):
        return INT_GRIDS[grid.rsplit("-", 1)[0]]

    def carrier(self, xs, grid):
        import numpy as np
        return list(xs) if grid.endswith("-list") else np.array(xs, dtype=np.int64)

    def run(self, ctx, inst, **cfg):
        ctx.typed_inputs = True
        return LongArray.run(self, ctx, inst, **cfg)


class BadStrategy(Family):
    name = "bad-strategy"
    doc = "dispatcher rejects every strategy name other than the three documented ones"
    differential = False

    def configs(self, tier):
        return [{"name": n} for n in ("", "Closest", "nearest", "lower ", "high", None)]

    def run(self, ctx, inst, name):
        import traffic_weaver.sorted_array_utils as sau
        xs = ctx.reals("x", 2)
        increasing(ctx, xs)
        try:
            sau.find_closest_element_indices_to_values(arr(ctx, xs), arr(ctx, [xs[0]]), strategy=name)
        except ValueError:
            ctx.claim("dispatch:rejects", True)
            return
        ctx.claim("dispatch:rejects", False)


META = {
    "explanation": "Bounded symbolic execution of the real two-pointer scans (pure Python over NumPy element iteration): "
                   "array and query values are solver reals, every comparison in the scan forks, and on each of the "
                   "resulting paths the returned integer index is checked against the declarative definition by an "
                   "SMT query (QF_LRA). Holds for ALL real values for the stated lengths.",
    "bounds": {"quick": "len(x) in 1..6, len(lookup) in 1..4, fill_not_valid both, list and ndarray inputs, via the "
                        "dispatcher and directly; concrete arrays of 33..40 elements; integer-typed arrays (int64 / list of ints, 1..5 "
                        "elements incl. negative ones) with 1..2 symbolic real queries",
               "thorough": "len(x) in 1..8, len(lookup) in 1..5"},
    "outside": ["arrays longer than the bound", "float rounding in the tie test q - a <= b - q (evaluated over reals; "
                "the +-1 ulp cases of the property text are not decided here)", "unsorted inputs (precondition)"],
    "assumptions": ["x strictly increasing, lookup non-decreasing (documented precondition)",
                    "NumPy object-array iteration yields the stored elements in order"],
    "stubs": [],
}


CH_TEMPLATE = '''"""generated by checks/c10.py: CrossHair contracts for the real scans on symbolic integers"""
import os, sys
from typing import List
sys.path.insert(0, os.environ.get("VERIF_REPO_SRC") or "/repo/src")
from traffic_weaver.sorted_array_utils import (
    find_closest_lower_equal_element_indices_to_values as _lower,
    find_closest_higher_equal_element_indices_to_values as _higher,
    find_closest_lower_or_higher_element_indices_to_values as _closest,
)
'''


def crosshair_second_engine(tier):
    """Second engine on the one module CrossHair can execute: the same definitions as PEP-316 contracts over symbolic
    integers. 'Confirmed over all paths' is the only passing verdict; a refutation is replayed through the Scan family."""
    import os
    import re
    import subprocess
    import time
    from symx.runner import VERIF, replay_concrete
    shapes = [(3, 2)] if tier == "quick" else [(3, 2), (4, 2), (4, 3), (5, 2)]
    src = [CH_TEMPLATE]
    for nx, nq in shapes:
        xs = ", ".join("x%d" % i for i in range(nx))
        qs = ", ".join("q%d" % i for i in range(nq))
        args = ", ".join("%s: int" % v for v in (xs + ", " + qs).split(", "))
        pre = " < ".join("x%d" % i for i in range(nx)) + (" and " + " <= ".join("q%d" % i for i in range(nq)) if nq > 1 else "")
        X = "[%s]" % xs
        Q = "[%s]" % qs
        last = nx - 1
        posts = {
            "lower": "all((q < x0 and i == 0) or (%s[i] <= q and (i == %d or q < %s[i + 1])) for q, i in zip(%s, __return__))" % (X, last, X, Q),
            "higher": "all((q > x%d and i == %d) or (%s[i] >= q and (i == 0 or %s[i - 1] < q)) for q, i in zip(%s, __return__))" % (last, last, X, X, Q),
            "closest": "all(all((abs(%s[i] - q) < abs(%s[k] - q)) if k < i else (abs(%s[i] - q) <= abs(%s[k] - q)) for k in range(%d)) "
                       "for q, i in zip(%s, __return__))" % (X, X, X, X, nx, Q),
        }
        calls = {"lower": "_lower(%s, %s, True)" % (X, Q), "higher": "_higher(%s, %s, True)" % (X, Q), "closest": "_closest(%s, %s)" % (X, Q)}
        for k in ("lower", "higher", "closest"):
            src.append("\n\ndef %s_%d_%d(%s) -> List[int]:\n    \"\"\"\n    pre: %s\n    post: %s\n    \"\"\"\n    return [int(v) for v in %s]\n"
                       % (k, nx, nq, args, pre, posts[k], calls[k]))
    d = os.path.join(VERIF, ".tmp")
    os.makedirs(d, exist_ok=True)
    path = os.path.join(d, "c10_crosshair_contracts.py")
    open(path, "w").write("".join(src))
    t0 = time.time()
    exe = os.path.join(os.path.dirname(sys.executable), "crosshair")
    try:
        p = subprocess.run([exe, "check", "--report_all", "--per_condition_timeout", "60" if tier == "quick" else "180", path],
                           capture_output=True, text=True, timeout=1200)
        out = p.stdout + p.stderr
    except Exception as e:  # noqa: BLE001
        return {"engine": "crosshair-tool", "ran": False, "note": "could not run: %s" % e}, []
    confirmed = len(re.findall(r"Confirmed over all paths", out))
    refuted = re.findall(r"error: (.*)", out)
    other = [l for l in out.splitlines() if ("Not confirmed" in l or "Unable to meet precondition" in l)]
    res = {"engine": "crosshair-tool 0.0.110 (symbolic execution of Python with z3), integers", "ran": True,
           "contracts": 3 * len(shapes), "shapes(len x, len lookup)": shapes, "confirmed_over_all_paths": confirmed,
           "refuted": refuted[:5], "inconclusive": other[:5], "wall_s": round(time.time() - t0, 1)}
    violations = []
    fam = Scan()
    for msg in refuted:
        m = re.search(r"calling (\w+?)_(\d+)_(\d+)\(([^)]*)\)", msg)
        if not m:
            continue
        strat, nx, nq = m.group(1), int(m.group(2)), int(m.group(3))
        vals = [int(v.split("=")[-1].strip()) for v in m.group(4).split(",")]
        model = {("x%d" % i): vals[i] for i in range(nx)}
        model.update({("q%d" % i): vals[nx + i] for i in range(nq)})
        cfg = {"strategy": strat, "nx": nx, "nq": nq, "fill": True, "via": "direct", "container": "list"}
        failed, _ = replay_concrete(fam, cfg, model)
        if failed:
            violations.append({"family": "crosshair-second-engine", "config": cfg, "claim": strat, "model": {k: str(v) for k, v in model.items()},
                               "info": {"crosshair": msg[:200]}, "replay_failed_claims": failed,
                               "module": "checks.c10", "family_class": "Scan", "property": "C10"})
    return res, violations


def main():
    ap = argparse.ArgumentParser()
    ap.add_argument("--tier", default="quick")
    a = ap.parse_args()
    META["second_engine"] = crosshair_second_engine
    sys.exit(run_check("C10", "nearest-sample search", [Scan(), LongArray(), IntegerTypedArray(), BadStrategy()], a.tier, META))


if __name__ == "__main__":
    main()
