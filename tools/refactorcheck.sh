#!/bin/sh
# usage: tools/refactorcheck.sh <name> <dir-with-patch.diff[-and-equiv.py]> [check ids... (default: all)]
# False-alarm test: applies a behaviour-preserving refactoring in a fresh scratch worktree of /repo, confirms the
# test suite still passes, and runs the quick checks against the refactored tree.  Every check must exit 0
# (exit 2 = the refactoring uses something the interposer does not model: a limitation, recorded, not an alarm;
#  exit 1 = a VIOLATION on code whose behaviour is unchanged = a false alarm, to be investigated).
# Keeps patch.diff, notes.md and meta.json under /verif/refactors/<name>/ and removes the worktree.
set -u
NAME=$1; SRC=$2; shift 2
V=/verif; OUT=$V/refactors/$NAME; WT=/tmp/refactorcheck.$$.$NAME
mkdir -p "$OUT"
[ "$SRC" != "$OUT" ] && cp "$SRC/patch.diff" "$OUT/patch.diff" && { [ -f "$SRC/notes.md" ] && cp "$SRC/notes.md" "$OUT/notes.md"; }
git -C /repo worktree add -q --detach "$WT" HEAD || exit 2
trap 'git -C /repo worktree remove --force "$WT" 2>/dev/null; rm -rf "$WT"' EXIT
git -C "$WT" apply "$OUT/patch.diff" || { echo "patch does not apply"; exit 2; }
T1=$(cd "$WT" && /venv/bin/python -m pytest -q -p no:cacheprovider --timeout=900 -o pythonpath=src -o addopts="--doctest-modules -W ignore::DeprecationWarning --ignore-glob=tests/*_integration_test.py" 2>&1 | tail -3 | grep -E "passed|failed" | tail -1)
echo "tests with the refactoring: $T1"
IDS="$*"
[ -z "$IDS" ] && IDS=$(python3 -c "import json; print(' '.join(c['property_id'] for c in json.load(open('$V/MANIFEST.json'))['checks']))")
RES=""
for C in $IDS; do
  LOG=$(cd $V && VERIF_REPO_SRC="$WT/src" timeout 1500 ./run $C quick 2>&1); RC=$?
  FIRST=$(echo "$LOG" | grep -E "^(VIOLATION|HARNESS-ERROR|UNREPLAYED|INTERPOSER|  family)" | head -2 | tr '\n' ' ' | cut -c1-400)
  echo "check $C: exit=$RC $FIRST"
  RES="$RES{\"check\":\"$C\",\"exit\":$RC,\"first\":$(python3 -c 'import json,sys; print(json.dumps(sys.argv[1]))' "$FIRST")},"
done
python3 - "$OUT" "$NAME" "$T1" "[${RES%,}]" <<'EOF'
import json, sys, subprocess
out, name, t1, res = sys.argv[1:5]
head = subprocess.run(["git", "-C", "/repo", "rev-parse", "--short", "HEAD"], capture_output=True, text=True).stdout.strip()
r = json.loads(res)
meta = {"name": name, "kind": "behaviour-preserving refactoring (false-alarm test)", "repo_head": head, "tests_after": t1,
        "checks_run": r, "false_alarms": [c["check"] for c in r if c["exit"] == 1],
        "unmodelled": [c["check"] for c in r if c["exit"] == 2]}
json.dump(meta, open(out + "/meta.json", "w"), indent=1)
print("false alarms:", meta["false_alarms"], " exit-2:", meta["unmodelled"])
EOF
