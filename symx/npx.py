"""Interposer between traffic_weaver and NumPy/SciPy for symbolic runs.

traffic_weaver's modules keep running on the *real* NumPy; their module-global `np` is rebound to
a proxy that forwards everything except the few entry points where NumPy would force a C double
onto a symbolic scalar.  SciPy's spline constructors and numpy.random.normal are replaced by
contract stubs that record what reaches them.
"""
from __future__ import annotations

import importlib
import sys
from contextlib import contextmanager
from fractions import Fraction

import numpy as _np

from . import core
from .core import Sym, HarnessError, And


class SymArray(_np.ndarray):
    """object-dtype ndarray that survives `.astype(float)`."""

    def astype(self, dtype, *a, **k):
        if self.dtype == object and dtype in (float, _np.float64, "float", "float64"):
            return self.copy()
        return _np.ndarray.astype(self, dtype, *a, **k)

    def __array_wrap__(self, obj, context=None, return_scalar=False):
        if obj.ndim == 0:
            return obj[()]
        return _np.ndarray.__array_wrap__(self, obj, context, return_scalar)

    def __float__(self):
        if self.ndim == 0 or self.size == 1:
            return float(self.reshape(-1)[0])
        raise TypeError("only length-1 arrays can be converted")

    def __array_ufunc__(self, ufunc, method, *inputs, out=None, **kwargs):
        """`typed_array op= real_array` (e.g. float64 `+=` an array allocated as float, which is an object array in a
        symbolic run): constants cross the boundary as floats; a genuinely symbolic value cannot be stored there."""
        if out is not None and any(isinstance(o, _np.ndarray) and o.dtype != object for o in out):
            conv = []
            for a in inputs:
                if isinstance(a, _np.ndarray) and a.dtype == object:
                    flat = a.reshape(-1)
                    vals = _np.empty(flat.size, dtype=float)
                    for i in range(flat.size):
                        v = flat[i]
                        if isinstance(v, Sym):
                            if not v.is_const():
                                raise HarnessError("symbolic value stored into a typed (non-object) array through %s" % ufunc.__name__)
                            v = v.const()
                        vals[i] = float(v)
                    conv.append(vals.reshape(a.shape))
                else:
                    conv.append(a)
            return getattr(ufunc, method)(*conv, out=out, **kwargs)
        # default behaviour (what ndarray subclass propagation did before this override existed)
        args = [a.view(_np.ndarray) if isinstance(a, SymArray) else a for a in inputs]
        if out is not None:
            kwargs["out"] = tuple(o.view(_np.ndarray) if isinstance(o, SymArray) else o for o in out)
        res = getattr(ufunc, method)(*args, **kwargs)
        if out is not None:
            return out[0] if len(out) == 1 else out

        def wrap(r):
            if type(r) is _np.ndarray:
                return r[()] if r.ndim == 0 else r.view(SymArray)
            return r
        return tuple(wrap(r) for r in res) if isinstance(res, tuple) else wrap(res)


def symarray(vals):
    a = _np.empty(len(vals), dtype=object)
    for i, v in enumerate(vals):
        a[i] = v if isinstance(v, Sym) else Sym.lift(v)
    return a.view(SymArray)


def _has_sym(a):
    if isinstance(a, Sym):
        return True
    if isinstance(a, _np.ndarray):
        return a.dtype == object
    if isinstance(a, (list, tuple)):
        return any(_has_sym(x) for x in a)
    return False


def _lift_obj(arr):
    """object array -> every numeric element a Sym (so mixed float/Sym arrays stay exact)."""
    flat = arr.reshape(-1)
    for i in range(flat.size):
        v = flat[i]
        if not isinstance(v, Sym):
            s = Sym.lift(v)
            if s is not None:
                flat[i] = s
    return arr


_FLOATS = (float, _np.float64, "float", "float64")


def _is_int_typed(a):
    if isinstance(a, _np.ndarray):
        return a.dtype.kind in "iub" and a.size > 0
    if isinstance(a, (list, tuple)) and len(a) > 0:
        return all(isinstance(v, (int, _np.integer)) and not isinstance(v, Sym) for v in a)
    return False


class NPProxy:
    def __init__(self, rec):
        self._rec = rec
        self.random = _RandomProxy(rec)

    def __getattr__(self, name):
        return getattr(_np, name)

    # -- constructors that would coerce to C double
    def _conv(self, fn, a, dtype=None, **kw):
        if dtype in _FLOATS and _has_sym(a):
            if isinstance(a, _np.ndarray) and a.dtype == object:
                if fn is _np.array and kw.get("copy", True) is not False:
                    return a.copy().view(SymArray)
                return a if isinstance(a, SymArray) else a.view(SymArray)  # no-copy rule preserved
            out = _np.array(a, dtype=object)
            return _lift_obj(out).view(SymArray)
        if dtype in _FLOATS and _is_int_typed(a) and core.CUR is not None and getattr(core.CUR, "symbolic", False) \
                and getattr(core.CUR, "typed_inputs", False):
            # an integer-typed concrete input that the code converts to float: in the symbolic run "float" is
            # the exact reals, so later symbolic values can be stored into it (harnesses that pass typed
            # inputs set ctx.typed_inputs)
            out = _np.array(a, dtype=object)
            return _lift_obj(out).view(SymArray)
        if dtype is None and _has_sym(a):
            r = fn(a, **kw)
            if r.dtype == object and not isinstance(r, SymArray):
                r = r.view(SymArray)
            return r
        if dtype is None:
            return fn(a, **kw)
        return fn(a, dtype=dtype, **kw)

    def asarray(self, a, dtype=None, **kw):
        return self._conv(_np.asarray, a, dtype, **kw)

    def asanyarray(self, a, dtype=None, **kw):
        return self._conv(_np.asanyarray, a, dtype, **kw)

    def array(self, a, dtype=None, **kw):
        return self._conv(_np.array, a, dtype, **kw)

    def _filled(self, shape, value):
        out = _np.empty(shape, dtype=object)
        flat = out.reshape(-1)
        v = Sym.lift(value)
        if v is None:
            v = value          # nan / inf fill (e.g. padding): stays the float it is
        for i in range(flat.size):
            flat[i] = v
        return out.view(SymArray)

    def _real_alloc(self, dtype):
        """in a symbolic run an array allocated as float is an array of reals: symbolic values may be stored into it"""
        return (dtype is None or dtype in _FLOATS) and core.CUR is not None and getattr(core.CUR, "symbolic", False)

    def zeros(self, shape, dtype=None, **kw):
        if self._real_alloc(dtype):
            return self._filled(shape, 0)
        return _np.zeros(shape, **({} if dtype is None else {"dtype": dtype}), **kw)

    def empty(self, shape, dtype=None, **kw):
        if self._real_alloc(dtype):
            return self._filled(shape, 0)       # (uninitialised in NumPy; reading before writing is a bug either way)
        return _np.empty(shape, **({} if dtype is None else {"dtype": dtype}), **kw)

    def ones(self, shape, dtype=None, **kw):
        if self._real_alloc(dtype):
            return self._filled(shape, 1)
        return _np.ones(shape, **({} if dtype is None else {"dtype": dtype}), **kw)

    def full(self, shape, fill_value, dtype=None, **kw):
        if (dtype in _FLOATS or (dtype is None and (isinstance(fill_value, (float, Sym)) or _has_sym(fill_value)))) \
                and core.CUR is not None and getattr(core.CUR, "symbolic", False) and _np.ndim(fill_value) == 0:
            return self._filled(shape, fill_value)
        return _np.full(shape, fill_value, **({} if dtype is None else {"dtype": dtype}), **kw)

    def _like(self, a, dtype, value, fn, **kw):
        is_real = isinstance(a, _np.ndarray) and (a.dtype == object or a.dtype.kind == "f")
        if (dtype in _FLOATS or (dtype is None and is_real)) and core.CUR is not None and getattr(core.CUR, "symbolic", False):
            return self._filled(_np.shape(a), value)
        return fn(a, **({} if dtype is None else {"dtype": dtype}), **kw)

    def zeros_like(self, a, dtype=None, **kw):
        return self._like(a, dtype, 0, _np.zeros_like, **kw)

    def ones_like(self, a, dtype=None, **kw):
        return self._like(a, dtype, 1, _np.ones_like, **kw)

    def empty_like(self, a, dtype=None, **kw):
        return self._like(a, dtype, 0, _np.empty_like, **kw)

    def full_like(self, a, fill_value, dtype=None, **kw):
        is_real = isinstance(a, _np.ndarray) and (a.dtype == object or a.dtype.kind == "f")
        if (dtype in _FLOATS or (dtype is None and is_real)) and core.CUR is not None and getattr(core.CUR, "symbolic", False) \
                and _np.ndim(fill_value) == 0:
            return self._filled(_np.shape(a), fill_value)
        return _np.full_like(a, fill_value, **({} if dtype is None else {"dtype": dtype}), **kw)

    def digitize(self, x, bins, right=False):
        if _has_sym(x) or _has_sym(bins):
            # documented equivalence for increasing bins
            return _np.searchsorted(_np.asarray(bins, dtype=object), _np.asarray(x, dtype=object), side="left" if right else "right")
        return _np.digitize(x, bins, right=right)

    def linspace(self, start, stop, num=50, endpoint=True, retstep=False, dtype=None, axis=0):
        """numpy.linspace by its documented definition, start + i*(stop-start)/div, last sample = stop.
        (The real implementation computes i/div in float64 on one of its internal paths, which is
        not exact for object arrays; its own `step == 0` test would also fork per element.)"""
        if not (_has_sym(start) or _has_sym(stop)):
            return _np.linspace(start, stop, num=num, endpoint=endpoint, retstep=retstep, dtype=dtype, axis=axis)
        if retstep or axis != 0 or dtype is not None:
            raise HarnessError("np.linspace(retstep/axis/dtype) not modelled")
        num = int(num)
        if num < 0:
            raise ValueError("Number of samples, %s, must be non-negative." % num)
        self._rec.append(("np.linspace", {"start": start, "stop": stop, "num": num}))
        st = _lift_obj(_np.array(start, dtype=object, copy=True, ndmin=0))
        sp = _lift_obj(_np.array(stop, dtype=object, copy=True, ndmin=0))
        st, sp = _np.broadcast_arrays(st, sp)
        div = (num - 1) if endpoint else num
        out = _np.empty((num,) + st.shape, dtype=object)
        delta = sp - st
        for i in range(num):
            if endpoint and i == num - 1 and num > 1:
                v = sp
            elif i == 0:
                v = st
            else:
                v = st + delta * i / div
            if st.ndim == 0:
                out[i] = v[()] if isinstance(v, _np.ndarray) else v
            else:
                out[i, ...] = v
        return out.view(SymArray)

    # -- predicates NumPy only implements for numeric dtypes
    def _elementwise(self, fn, *arrays):
        bs = _np.broadcast_arrays(*[_np.asarray(a, dtype=object) for a in arrays])
        out = _np.empty(bs[0].shape, dtype=bool)
        it = _np.nditer(out, flags=["multi_index"], op_flags=["writeonly"])
        for _ in it:
            idx = it.multi_index
            out[idx] = bool(fn(*[b[idx] for b in bs]))
        return out if out.ndim else bool(out[()])

    def isclose(self, a, b, rtol=1e-5, atol=1e-8, equal_nan=False):
        if not (_has_sym(a) or _has_sym(b)):
            return _np.isclose(a, b, rtol=rtol, atol=atol, equal_nan=equal_nan)
        rt, at = Sym.lift(rtol), Sym.lift(atol)

        def one(x, y):
            x, y = Sym.lift(x), Sym.lift(y)
            if x is None or y is None:      # nan / inf operand
                return False
            return abs(x - y) <= at + rt * abs(y)
        return self._elementwise(one, a, b)

    def allclose(self, a, b, rtol=1e-5, atol=1e-8, equal_nan=False):
        r = self.isclose(a, b, rtol=rtol, atol=atol, equal_nan=equal_nan)
        return bool(_np.all(r))

    def isfinite(self, a, *args, **kw):
        if not _has_sym(a):
            return _np.isfinite(a, *args, **kw)
        return self._elementwise(lambda v: Sym.lift(v) is not None, a)

    def isnan(self, a, *args, **kw):
        if not _has_sym(a):
            return _np.isnan(a, *args, **kw)
        return self._elementwise(lambda v: (not isinstance(v, Sym)) and v != v, a)

    def nan_to_num(self, a, copy=True, nan=0.0, posinf=None, neginf=None):
        if not _has_sym(a):
            return _np.nan_to_num(a, copy=copy, nan=nan, posinf=posinf, neginf=neginf)
        big = _np.finfo(float).max

        def one(v):
            if isinstance(v, Sym):
                return v
            if v != v:
                return Sym.lift(nan)
            if v in (float("inf"), float("-inf")):
                return Sym.lift((posinf if posinf is not None else big) if v > 0 else (neginf if neginf is not None else -big))
            return Sym.lift(v)
        src = _np.asarray(a, dtype=object)
        out = _np.empty(src.shape, dtype=object)
        for idx in _np.ndindex(src.shape):
            out[idx] = one(src[idx])
        return out.view(SymArray)

    def count_nonzero(self, a, axis=None, **kw):
        if not _has_sym(a):
            return _np.count_nonzero(a, axis=axis, **kw)
        src = _np.asarray(a, dtype=object)
        flags = _np.zeros(src.shape, dtype=_np.intp)
        for idx in _np.ndindex(src.shape):
            v = src[idx]
            flags[idx] = 1 if (bool(v != 0) if isinstance(v, Sym) else bool(v != 0)) else 0     # a symbolic element forks
        return flags.sum(axis=axis, **kw)

    def gradient(self, f, *varargs, axis=None, edge_order=1):
        """numpy.gradient for 1-D input (its documented second-order interior / first-order edge formulas)"""
        if not (_has_sym(f) or any(_has_sym(v) for v in varargs)):
            return _np.gradient(f, *varargs, **({} if axis is None else {"axis": axis}), edge_order=edge_order)
        fa = _lift_obj(_np.array(f, dtype=object))
        if fa.ndim != 1 or edge_order != 1 or len(varargs) > 1:
            raise HarnessError("np.gradient: only 1-D, edge_order=1 is modelled")
        n = len(fa)
        if n < 2:
            raise ValueError("Shape of array too small to calculate a numerical gradient, at least 2 elements are required.")
        if not varargs or _np.ndim(varargs[0]) == 0:
            h = Sym.lift(varargs[0]) if varargs else Sym.lift(1)
            d = [h] * (n - 1)
        else:
            xa = _lift_obj(_np.array(varargs[0], dtype=object))
            if len(xa) != n:
                raise ValueError("when 1d, distances must match the length of the corresponding dimension")
            d = [xa[i + 1] - xa[i] for i in range(n - 1)]
        out = [None] * n
        out[0] = (fa[1] - fa[0]) / d[0]
        out[n - 1] = (fa[n - 1] - fa[n - 2]) / d[n - 2]
        for i in range(1, n - 1):
            hs, hd = d[i - 1], d[i]
            out[i] = (hs * hs * fa[i + 1] - hd * hd * fa[i - 1] + (hd * hd - hs * hs) * fa[i]) / (hs * hd * (hd + hs))
        return symarray(out)

    def isscalar(self, v):
        return isinstance(v, Sym) or _np.isscalar(v)

    def interp(self, x, xp, fp, left=None, right=None, period=None):
        """numpy.interp by its documented definition (xp increasing), executed on Syms."""
        if not (_has_sym(x) or _has_sym(xp) or _has_sym(fp)):
            return _np.interp(x, xp, fp, left=left, right=right, period=period)
        if period is not None:
            raise HarnessError("np.interp(period=...) not modelled")
        self._rec.append(("np.interp", {"x": x, "xp": xp, "fp": fp, "left": left, "right": right}))
        xs = list(_np.asarray(x, dtype=object).reshape(-1))
        xp_l = list(_np.asarray(xp, dtype=object).reshape(-1))
        fp_l = list(_np.asarray(fp, dtype=object).reshape(-1))
        if len(xp_l) != len(fp_l):
            raise ValueError("fp and xp are not of the same length.")
        out = []
        for q in xs:
            q = Sym.lift(q)
            if bool(q < xp_l[0]):
                out.append(Sym.lift(fp_l[0] if left is None else left))
                continue
            if bool(q > xp_l[-1]):
                out.append(Sym.lift(fp_l[-1] if right is None else right))
                continue
            j = 0
            while j + 1 < len(xp_l) - 1 and bool(xp_l[j + 1] <= q):
                j += 1
            if len(xp_l) == 1:
                out.append(Sym.lift(fp_l[0]))
                continue
            if bool(q == xp_l[j + 1]):
                out.append(Sym.lift(fp_l[j + 1]))
                continue
            x0, x1, y0, y1 = xp_l[j], xp_l[j + 1], fp_l[j], fp_l[j + 1]
            out.append(Sym.lift(y0 + (y1 - y0) * (q - x0) / (x1 - x0)))
        if _np.ndim(x) == 0:
            return out[0]
        return symarray(out).reshape(_np.shape(x))


class _RandomProxy:
    def __init__(self, rec):
        self._rec = rec

    def __getattr__(self, name):
        return getattr(_np.random, name)

    def normal(self, loc=0.0, scale=1.0, size=None):
        ctx = core.CUR
        if ctx is None:
            return _np.random.normal(loc, scale, size)
        n = int(_np.prod(size)) if size is not None else 1
        k = sum(1 for r in self._rec if r[0] == "np.random.normal")
        draws = [ctx.fresh("noise%d_" % k) for _ in range(n)]
        self._rec.append(("np.random.normal", {"loc": loc, "scale": scale, "size": size, "draws": draws}))
        if size is None:
            return draws[0]
        return symarray(draws).reshape(size)


# ---------------------------------------------------------------- SciPy contract stubs

def _strictly_increasing_or_raise(x, who):
    xs = list(_np.asarray(x, dtype=object).reshape(-1))
    for a, b in zip(xs, xs[1:]):
        if not bool(Sym.lift(a) < Sym.lift(b)):
            raise ValueError("%s: `x` must be strictly increasing sequence." % who)
    return xs


class SplineStub:
    """Callable returned by the CubicSpline / BSpline stubs."""

    def __init__(self, rec, kind, x, y, s, k, w=None):
        self.kind, self.x, self.y, self.s, self.k = kind, x, y, s, k
        ws = [Sym.lift(1)] * len(x) if w is None else [Sym.lift(v) for v in _np.asarray(w, dtype=object).reshape(-1)]
        self.rec = rec
        self.cache = {}
        ctx = core.CUR
        self.interpolating = (kind == "CubicSpline") or (isinstance(Sym.lift(s), Sym) and Sym.lift(s).is_const()
                                                          and Sym.lift(s).const() == 0)
        self.knot_vals = None
        if not self.interpolating:
            # documented FITPACK contract: sum (w_i * (g(x_i) - y_i))^2 <= s   (g(x_i) fresh)
            g = [ctx.fresh("g%d_" % i) for i in range(len(x))]
            tot = Sym.lift(0)
            for gi, yi, wi in zip(g, y, ws):
                d = (gi - Sym.lift(yi)) * wi
                tot = tot + d * d
            ctx.add_def(tot <= Sym.lift(s))
            self.knot_vals = g

    extrapolate = True      # SciPy's attribute: True / False / 'periodic' (callers may set it on the returned object)

    def _at(self, q):
        q = Sym.lift(q)
        if self.extrapolate == "periodic":
            # SciPy: x = t[k] + (x - t[k]) % (t[n] - t[k]); inside [first, last) nothing changes, the last abscissa wraps to
            # the first one; other periods are not modelled
            x0, xn = Sym.lift(self.x[0]), Sym.lift(self.x[-1])
            if bool(q == xn):
                q = x0
            elif bool(q < x0) or bool(q > xn):
                raise HarnessError("periodic spline evaluated outside its base period: not modelled")
        elif self.extrapolate is not True:
            raise HarnessError("spline.extrapolate=%r not modelled" % (self.extrapolate,))
        # value at a data abscissa
        for i, xi in enumerate(self.x):
            xi = Sym.lift(xi)
            d = q - xi
            if d.is_const():
                if d.const() == 0:
                    return Sym.lift(self.y[i]) if self.interpolating else self.knot_vals[i]
                continue
            if bool(q == xi):
                return Sym.lift(self.y[i]) if self.interpolating else self.knot_vals[i]
        k = q.key()
        v = self.cache.get(k)
        if v is None:
            v = core.CUR.fresh("spl")
            self.cache[k] = v
        return v

    def __call__(self, q, *a, **kw):
        self.rec.append((self.kind + ".__call__", {"at": q}))
        if _np.ndim(q) == 0:
            if isinstance(q, _np.ndarray):
                q = q[()]
            return self._at(q)
        qs = list(_np.asarray(q, dtype=object).reshape(-1))
        return symarray([self._at(v) for v in qs]).reshape(_np.shape(q))


class SciPyStubs:
    def __init__(self, rec):
        self.rec = rec

    def CubicSpline(self, x, y, *a, **kw):
        xs = _strictly_increasing_or_raise(x, "CubicSpline")
        ys = list(_np.asarray(y, dtype=object).reshape(-1))
        if len(xs) != len(ys):
            raise ValueError("The length of `y` along `axis`=0 doesn't match the length of `x`")
        if len(xs) < 2:
            raise ValueError("`x` must contain at least 2 elements.")
        self.rec.append(("CubicSpline", {"x": x, "y": y, "args": a, "kwargs": kw}))
        return SplineStub(self.rec, "CubicSpline", xs, ys, 0, 3)

    def splrep(self, x, y, w=None, xb=None, xe=None, k=3, task=0, s=None, t=None, full_output=0, per=0, quiet=1):
        xs = list(_np.asarray(x, dtype=object).reshape(-1))
        ys = list(_np.asarray(y, dtype=object).reshape(-1))
        if len(xs) != len(ys):
            raise TypeError("Lengths of the first two arguments (x,y) must be equal")
        if len(xs) <= k:
            raise TypeError("m > k must hold")
        for a_, b_ in zip(xs, xs[1:]):
            if not bool(Sym.lift(a_) <= Sym.lift(b_)):
                raise ValueError("Error on input data")
        self.rec.append(("splrep", {"x": x, "y": y, "s": s, "k": k, "w": w, "t": t, "per": per}))
        if s is None:
            if w is not None:
                raise HarnessError("splrep with weights and default s (m - sqrt(2m)) not modelled")
            s = 0          # documented default: s = 0.0 (interpolating) if no weights are supplied
        if t is not None or per:
            raise HarnessError("splrep(t/per) not modelled")
        return ("tck", xs, ys, s, k, w)

    def BSpline(self, *tck, **kw):
        if len(tck) == 6 and tck[0] == "tck":
            _, xs, ys, s, k, w = tck
            if s is None:
                raise HarnessError("splrep(s=None) default (m - sqrt(2m)) not modelled")
            self.rec.append(("BSpline", {"from": "splrep", "s": s, "k": k}))
            return SplineStub(self.rec, "BSpline", xs, ys, s, k, w)
        raise HarnessError("BSpline constructed from something else than splrep's result")


# ---------------------------------------------------------------- installation

TW_MODULES = ["sorted_array_utils", "interval", "funfit", "process", "rfa", "match", "weaver"]


def load_tw(src=None):
    """Import traffic_weaver from `src` (default: $VERIF_REPO_SRC or /repo/src)."""
    import os
    src = src or os.environ.get("VERIF_REPO_SRC") or "/repo/src"
    if src not in sys.path:
        sys.path.insert(0, src)
    tw = importlib.import_module("traffic_weaver")
    if not tw.__file__.startswith(src):
        raise HarnessError("traffic_weaver imported from %s, expected under %s" % (tw.__file__, src))
    return tw


class Installed:
    def __init__(self, rec, proxy, stubs):
        self.rec, self.np, self.scipy = rec, proxy, stubs

    def calls(self, name):
        return [r[1] for r in self.rec if r[0] == name]


@contextmanager
def interposed():
    """Rebind np / scipy names in traffic_weaver's modules for the duration of a symbolic run."""
    load_tw()
    rec = []
    proxy = NPProxy(rec)
    stubs = SciPyStubs(rec)
    saved = []
    for mn in TW_MODULES:
        mod = importlib.import_module("traffic_weaver." + mn)
        for attr, val in (("np", proxy), ("CubicSpline", stubs.CubicSpline), ("BSpline", stubs.BSpline),
                          ("splrep", stubs.splrep)):
            if hasattr(mod, attr):
                saved.append((mod, attr, getattr(mod, attr)))
                setattr(mod, attr, val)
    try:
        yield Installed(rec, proxy, stubs)
    finally:
        for mod, attr, val in reversed(saved):
            setattr(mod, attr, val)
