"""C04 - recreated series has an exact n-fold grid structure."""
import argparse
import sys
from fractions import Fraction

import numpy as np

from symx.runner import Family, arr, increasing, run_check
from symx.core import Sym
from checks.rfafam import ALL6, shape_configs, large_configs, typed_configs, inputs, make, num


class Grid(Family):
    name = "rfa-grid"
    split_depth = 12
    doc = "every strategy: types, length, every n-th abscissa identical to the input, equal positive gaps, finite"

    def configs(self, tier):
        if tier == "quick":
            return shape_configs(tier, ALL6, sym_x_max_m=3, max_m=4, ns=(2, 3, 4), adaptive_max_m=4) + large_configs(tier, ALL6) + typed_configs(ALL6)
        return shape_configs(tier, ALL6, sym_x_max_m=4, max_m=6, ns=(2, 3, 4, 6), adaptive_max_m=5) + large_configs(tier, ALL6) + typed_configs(ALL6)

    def run(self, ctx, inst, strategy, m, n, grid, p, typed=None):
        x, y, X, ys = inputs(ctx, m, grid, typed)
        xs, zs = make(ctx, strategy, x, y, n, p).rfa()
        ctx.note("xs", xs)
        info = {"strategy": strategy}
        ctx.claim("type-xs-ndarray", isinstance(xs, np.ndarray), info)
        ctx.claim("type-ys-ndarray", isinstance(zs, np.ndarray), info)
        ctx.claim("one-dimensional", np.ndim(xs) == 1 and np.ndim(zs) == 1, info)
        L = (m - 1) * n + 1
        ctx.claim("length", len(xs) == L and len(zs) == L, info)
        if len(xs) != L or len(zs) != L:
            return
        for v in list(xs) + list(zs):
            ctx.claim("finite-values", ctx.is_finite(v), info)
        for k in range(m):
            ctx.claim("nth-abscissa-is-original", ctx.same(xs[k * n], X[k]), {"k": k})
        for k in range(m - 1):
            gap = (X[k + 1] - X[k]) / n
            for j in range(n):
                d = xs[k * n + j + 1] - xs[k * n + j]
                ctx.claim("equal-gaps", ctx.eq(d, gap), {"k": k, "j": j})
                ctx.claim("strictly-increasing", ctx.lt(0, d), {"k": k, "j": j})


class UserFunction(Family):
    name = "rfa-user-sampling-function"
    doc = "FunctionRFA with a user-supplied sampling function (uninterpreted: a fresh real per abscissa)"
    differential = False

    def configs(self, tier):
        return [{"m": m, "n": n, "kind": k} for m in (2, 3, 4) for n in (2, 3) for k in ("scalar-only", "constant", "affine-vectorised")]

    def run(self, ctx, inst, m, n, kind):
        import math
        from traffic_weaver import rfa
        x, y, X, ys = inputs(ctx, m, None)
        table = {}
        c0, c1 = ctx.real("c0"), ctx.real("c1")

        def supplier(xx, yy):
            if kind == "constant":
                return lambda q: c0                      # x-independent (e.g. "the mean level"): accepts anything, returns a scalar
            if kind == "affine-vectorised":
                return lambda q: c0 + c1 * q             # works on scalars and arrays alike

            def f(q):                                    # scalar-only: uninterpreted, a fresh real per abscissa
                if isinstance(q, np.ndarray) and q.ndim > 0:
                    raise TypeError("only length-1 arrays can be converted to Python scalars")
                if ctx.symbolic:
                    k = Sym.lift(q).key()
                    if k not in table:
                        table[k] = ctx.fresh("f")
                    return table[k]
                return math.sin(q)
            return f

        xs, zs = rfa.FunctionRFA(x, y, n, sampling_function_supplier=supplier).rfa()
        N = (m - 1) * n + 1
        ctx.claim("type-xs-ndarray", isinstance(xs, np.ndarray), {"kind": kind})
        ctx.claim("type-ys-ndarray", isinstance(zs, np.ndarray), {"kind": kind})
        ctx.claim("one-dimensional", np.ndim(xs) == 1 and np.ndim(zs) == 1, {"kind": kind, "ndim": (np.ndim(xs), np.ndim(zs))})
        ctx.claim("length", np.ndim(xs) == 1 and np.ndim(zs) == 1 and len(xs) == N and len(zs) == N, {"kind": kind})
        if np.ndim(zs) == 1 and len(zs) == N and np.ndim(xs) == 1 and len(xs) == N and kind != "scalar-only":
            for i in range(N):
                exp = c0 if kind == "constant" else c0 + c1 * xs[i]
                ctx.claim("value=function(abscissa)", ctx.eq(zs[i], exp), {"i": i, "kind": kind})


class RejectSmallN(Family):
    name = "rfa-n-below-2"
    doc = "any oversampling factor below 2 (symbolic real, and the integers 1, 0, -1) raises ValueError"
    differential = False

    def configs(self, tier):
        return [{"strategy": s, "n": nn} for s in ALL6 for nn in ("sym", 1, 0, -3, "1.5", "np.float64(1.9)", "True", "np.int64(1)")]

    def run(self, ctx, inst, strategy, n):
        from traffic_weaver import rfa
        x, y, X, ys = inputs(ctx, 3, None)
        if n == "sym":
            nv = ctx.real("n")
            ctx.assume(ctx.lt(nv, 2))
            if not ctx.symbolic and nv >= 2:
                return
        elif isinstance(n, str):
            nv = eval(n, {"np": np})
        else:
            nv = n
        try:
            getattr(rfa, strategy)(x, y, nv).rfa()
        except ValueError:
            ctx.claim("n<2-rejected", True)
            return
        ctx.claim("n<2-rejected", False, {"strategy": strategy})


class NumpyIntegerN(Family):
    name = "rfa-numpy-integer-n"
    doc = "the oversampling factor given as a NumPy integer behaves like the Python int"

    def configs(self, tier):
        return [{"strategy": s, "m": 3, "n": n} for s in ALL6 for n in (2, 3)]

    def run(self, ctx, inst, strategy, m, n):
        x, y, X, ys = inputs(ctx, m, None)
        xs, zs = make(ctx, strategy, x, y, np.int64(n), {}).rfa()
        xs2, zs2 = make(ctx, strategy, x, y, n, {}).rfa()
        L = (m - 1) * n + 1
        ctx.claim("length", len(xs) == L and len(zs) == L, {"strategy": strategy})
        ctx.claim("type-ys-ndarray", isinstance(zs, np.ndarray) and np.ndim(zs) == 1)
        if len(xs) == L and len(zs) == L and strategy != "CubicSplineRFA":
            for i in range(L):
                ctx.claim("same-as-python-int", ctx.And(ctx.eq(xs[i], xs2[i]), ctx.eq(zs[i], zs2[i])), {"i": i})


class ViaWeaver(Family):
    name = "weaver-recreate"
    doc = "Weaver.recreate_from_average(...).get() has the same structure"

    def configs(self, tier):
        return [{"strategy": s, "m": 3, "n": n} for s in ALL6 for n in (2, 3)]

    def run(self, ctx, inst, strategy, m, n):
        from traffic_weaver import Weaver, rfa
        x, y, X, ys = inputs(ctx, m, None)
        w = Weaver(x, y).recreate_from_average(n, rfa_class=getattr(rfa, strategy))
        xs, zs = w.get()
        ctx.claim("type-xs-ndarray", isinstance(xs, np.ndarray), {"strategy": strategy})
        ctx.claim("type-ys-ndarray", isinstance(zs, np.ndarray), {"strategy": strategy})
        L = (m - 1) * n + 1
        ctx.claim("length", len(xs) == L and len(zs) == L)
        if len(xs) == L:
            for k in range(m):
                ctx.claim("nth-abscissa-is-original", ctx.same(xs[k * n], X[k]), {"k": k})


META = {
    "explanation": "Bounded symbolic execution of every strategy's rfa() (and the helpers oversample_linspace, "
                   "oversample_piecewise_constant, IntervalArray.extend_*, extend_linspace/_constant it drives) with x "
                   "and y symbolic reals: result types, length (m-1)n+1, every n-th abscissa the identical term as the "
                   "input abscissa, all gaps equal to (x[k+1]-x[k])/n > 0, no feasible zero-division (non-finite) "
                   "path; n < 2 (any real) raises ValueError. The real-arithmetic identity 'every n-th abscissa is an "
                   "original' is what is decided; bit-for-bit equality additionally relies on numpy.linspace returning "
                   "`start` exactly at index 0 (documented NumPy behaviour, not re-proved here).",
    "bounds": {"quick": "m in 2..4, n in {2,3,4}; x symbolic for m<=3 (fixed strategies) else concrete gap grids; "
                        "parameter grids of rfafam.params_for; integer-typed x or y (int64 array / list of ints) for every strategy at m=4, n=3; user sampling functions of three kinds (scalar-only uninterpreted, x-independent constant, vectorised affine) with m in 2..4",
               "thorough": "m in 2..6 (adaptive: m<=4 with n<=4, m=5 with n=2), n in {2,3,4,6}; x symbolic for m<=4"},
    "outside": ["m up to 60, n up to 64", "float rounding of linspace (reals)", "SciPy's CubicSpline numerics (stub)"],
    "assumptions": ["x strictly increasing", "CubicSpline stub: callable returning y_i at x_i and an unconstrained real "
                    "elsewhere, raising ValueError unless x is strictly increasing"],
    "stubs": ["scipy.interpolate.CubicSpline (contract stub)"],
}

if __name__ == "__main__":
    ap = argparse.ArgumentParser()
    ap.add_argument("--tier", default="quick")
    a = ap.parse_args()
    sys.exit(run_check("C04", "rfa grid", [Grid(), UserFunction(), RejectSmallN(), NumpyIntegerN(), ViaWeaver()], a.tier, META))
