#!/usr/bin/env python3
"""Regenerate /verif/MANIFEST.json from the table below (keeps it schema-valid)."""
import json
import os

HERE = os.path.dirname(os.path.dirname(os.path.abspath(__file__)))
TECH = ("bounded symbolic execution of the real Python source on exact-real terms inside real NumPy object arrays "
        "(symx), every branch forked and every claim discharged by z3 (QF_LRA / nlsat QF_NRA); sat models replayed on "
        "the float64 code")
TRUST = ("z3; CPython and NumPy object-array semantics; the symx executor and its NumPy interposer (validated on "
         "every run against float64 NumPy on concrete inputs); exact real arithmetic instead of IEEE rounding; "
         "sizes within the stated bounds only")

CHECKS = {
    "C01": ("For every real y, reference value and reference position (symbolic), on every explored grid/shape the "
            "matched result's interval integrals equal the reference's; all fixed-point designations, 2x2 rules, "
            "several exponents incl. a symbolic one. Bounded in the number of samples.", "1 C01"),
    "C03": ("Same runs as C01 with the displacement-profile, fixed-point, outside-span and idempotence claims; kernel "
            "with y and the target integral both symbolic on rational lattice grids up to 8 points.", "1 C03"),
    "C10": ("All real-valued strictly increasing arrays (<= 6 / 8 elements) and sorted query lists (<= 4 / 5): the index "
            "returned by each of the three scans and the dispatcher satisfies the declarative definition on every "
            "path.", "1 C10"),
    "C04": ("All six strategies + user sampling functions: x and y symbolic; result types, length (m-1)n+1, every n-th "
            "abscissa the identical term as the input, equal positive gaps, no feasible non-finite path; any real "
            "n < 2 raises ValueError.", "1 C04"),
    "C05": ("Four window strategies with symbolic averages (all tie patterns are explored paths) and symbolic or "
            "lattice x: no overshoot, plateau with at most a-1 off-plateau samples at the borders, monotone "
            "transitions; constant in -> constant out; piecewise-constant exact; spline stub hit at the knots.", "1 C05"),
    "C06": ("funfit closed forms for rational and symbolic exponents on fully symbolic arguments; window strategies "
            "sample-by-sample against an independent oracle of the documented geometry; adaptive window ordering, "
            "range and tie cases.", "1 C06"),
    "C07": ("Two to four executions of the real strategy in one symbolic run with the map parameters / changed average "
            "/ second series as solver variables: affine commutation in values and time, locality, additivity, "
            "weights summing to one and non-negative.", "1 C07"),
    "C02": ("The documented pipeline Weaver -> [append_one_sample] -> recreate_from_average -> integral_match run as a "
            "whole on symbolic averages for all six strategies: every original interval's mean under the target rule "
            "equals its original average; rectangle rule: block averaging returns the original abscissae and "
            "averages.", "1 C02"),
    "C08": ("One inductive step per operation from an arbitrary symbolic Weaver state (covers histories of any length "
            "within the size bound) plus all bounded operation sequences followed by recreate + match.", "1 C08"),
    "C09": ("Inductive step over all operation kinds from arbitrary well-formed states incl. the state aliasing the "
            "caller's arrays: well-formedness, caller data and original untouched, restore_original equivalence.",
            "1 C09"),
    "C18": ("The real load_dataset on a symbolic string (one solver integer per character): every documented name with "
            "all separator spellings reaches its own loader, and an arbitrary printable string of every relevant "
            "length is rejected unless z3 proves it is such a spelling; remote metadata distinctness and bundled-file "
            "well-formedness are concrete facts evaluated in the same check.", "1 C18"),
    "C19": ("The real remote loader against an in-memory file system with a solver-driven fault oracle: symbolic "
            "retry budget and failure pattern, payload class tied to the checksum comparison, kill before any step "
            "(frozen file system), all interleavings of concurrent loaders at the shared paths (also with one loader killed before a symbolic "
            "one of its own calls), refresh of a stale / damaged entry; replay on a real temporary directory.", "1 C19"),
    "C20": ("Every invalid-argument class with its invalid region symbolic (or a list of wrong names) on arbitrary "
            "fresh/tracked/reshaped states: ValueError and the six state arrays are the same objects with the same "
            "terms.", "1 C20"),
    "C11": ("process.truncate and the Weaver's truncate/slice operations on symbolic series and symbolic bounds (each "
            "comparison of the neighbour search forks, so bounds inside/on/outside the data are separate paths) against "
            "a declarative oracle, incl. the reference after a reshape; index forms enumerated against Python slicing.",
            "1 C11"),
    "C12": ("process.repeat / Weaver.repeat on symbolic series: tiling, spacing inside copies, junction step, monotonic, "
            "identity, composition for all factor pairs within the bound.", "1 C12"),
    "C13": ("'constant' through the real code on symbolic data and grids; 'linear' through a definition model of "
            "numpy.interp; 'cubic'/'spline' through recording contract stubs (argument roles, s = 0); Weaver grid "
            "construction and end-point check with a symbolic offset.", "1 C13"),
    "C14": ("trend with an uninterpreted trend function, shift/scale with symbolic parameters, normalise with symbolic "
            "target range: exact pointwise maps, order and relative spacing preserved.", "1 C14"),
    "C15": ("noise_gauss / Weaver.noise with numpy.random.normal as a recording stub of fresh reals: one draw, zero "
            "mean, signal shape, purely additive, scale^2*SNR == mean(y^2) for linear/dB/array/symbolic snr, std "
            "verbatim. The statistical clause of the property is outside this technique and not claimed.", "1 C15"),
    "C16": ("What traffic-weaver hands to FITPACK and does with the result (arguments, default s = len*var, s = 0 for "
            "to_function, evaluation at the existing x); statements about the spline itself hold under the stated "
            "FITPACK contract (assumption).", "1 C16"),
    "C17": ("All array helpers, the interval view and block averaging on symbolic arrays, one path per shape, for the "
            "property's whole size range in the thorough tier.", "1 C17"),
}

NA_REASON = "not claimed"

EXTRA_TRUST = {
    "C02": "CubicSpline is a contract stub (values between knots unconstrained).",
    "C05": "CubicSpline is a contract stub.",
    "C07": "CubicSplineRFA is outside the claim (SciPy numerics).",
    "C10": "Second engine (CrossHair, integers, short lists) agrees; float +-1 ulp cases are outside.",
    "C13": "numpy.interp is modelled by its documented definition; CubicSpline / splrep+BSpline are recording contract stubs.",
    "C15": "numpy.random.normal is a recording stub returning unconstrained reals; the statistical clause of the property is "
           "outside the technique and not claimed.",
    "C16": "splrep/BSpline are a recording contract stub: statements about the spline itself hold under the FITPACK contract "
           "sum((w_i (g(x_i)-y_i))^2) <= s, which is an assumption.",
    "C18": "Loaders are replaced by recorders (dispatch is decided, not loading); remote-metadata distinctness and the "
           "bundled CSVs' well-formedness are concrete facts evaluated, not solver-decided.",
    "C19": "File system, network, hashing, pickling and time are a model (symx/fsmodel.py): SHA-256 collision freedom, "
           "POSIX rename atomicity, buffered writes flushed on close / release, unique temporary names; a kill is a "
           "frozen file system; counterexamples are replayed on a real temporary directory.",
}


def main():
    props = [json.loads(l) for l in open(os.path.join(HERE, "properties.jsonl"))]
    checks = []
    for pid, (text, ref) in CHECKS.items():
        checks.append({
            "property_id": pid,
            "quick_cmd": "./run %s quick" % pid,
            "thorough_cmd": "./run %s thorough" % pid,
            "evidence_file": "evidence/%s.json" % pid,
            "replay_cmd_template": ".venv/bin/python -m symx.replay {path}",
            "engine": "symx",
            "level_claimed": {"category": "model_checking",
                              "text": "Bounded symbolic model checking of the real code: " + text,
                              "design_ref": "DESIGN.md section " + ref},
            "level_note": TRUST + (" " + EXTRA_TRUST[pid] if pid in EXTRA_TRUST else ""),
            "technique": TECH,
        })
    m = {
        "version": 1,
        "setup_cmd": "./setup.sh",
        "hooks": {"guard": "W4K2_TRAFFIC_WEAVER_VERIF",
                  "enable": "no hooks are needed: the checks rebind module globals (np, scipy names) of traffic_weaver "
                            "inside the harness process only; nothing in /repo is instrumented",
                  "baseline_off_cmd": "cd /repo && /venv/bin/python -m pytest -ra -q -p no:cacheprovider --timeout=900 "
                                      "--continue-on-collection-errors",
                  "source_commits": [], "add_only": True},
        "engines": [{"name": "symx", "path": "symx/", "serves_properties": sorted(CHECKS),
                     "kind_free_text": "path-exploring symbolic executor for Python/NumPy over exact reals + z3 (core.py, npx.py, "
                                       "runner.py); symbolic strings (symstr.py); file-system model with fault oracle and "
                                       "baton scheduler (fsmodel.py)"},
                    {"name": "crosshair", "path": "checks/c10.py", "serves_properties": ["C10"],
                     "kind_free_text": "crosshair-tool 0.0.110 on generated PEP-316 contracts over symbolic integers: second "
                                       "engine for the pure-Python scans only"}],
        "checks": checks,
        "notes": "Every check is `./run <ID> <tier>`; it builds .venv from the offline wheelhouse if missing, imports "
                 "traffic_weaver from /repo/src (or $VERIF_REPO_SRC), and rewrites evidence/<ID>.json. Exit 0 = all "
                 "obligations within the bounds discharged or listed in known_findings.json; 1 = replayed violation; "
                 "2 = harness problem (never a verdict).",
        "not_applicable": [{"property_id": p["id"], "reason": NA_REASON} for p in props if p["id"] not in CHECKS],
    }
    json.dump(m, open(os.path.join(HERE, "MANIFEST.json"), "w"), indent=1)
    try:
        import jsonschema
        jsonschema.validate(m, json.load(open("/root/.vp/MANIFEST.schema.json")))
        print("MANIFEST.json valid:", len(checks), "checks,", len(m["not_applicable"]), "not applicable")
    except ImportError:
        print("written (jsonschema not available to validate)")


if __name__ == "__main__":
    main()
