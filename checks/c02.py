"""C02 - recreate + match preserves every original average (averaging round trip)."""
import argparse
import os
import sys
from fractions import Fraction

import numpy as np

from symx.runner import Family, arr, increasing, run_check
from symx.core import Sym
from checks.rfafam import ALL6, params_for, build_kwargs
from checks.matchfam import gap_grids, cx, o_integral


def bundled_abscissae():
    """first columns of the bundled Sandvine CSVs (concrete data shipped with the package)"""
    import traffic_weaver
    d = os.path.join(os.path.dirname(traffic_weaver.__file__), "datasets", "data", "sandvine")
    out = {}
    for f in sorted(os.listdir(d)):
        if f.endswith(".csv"):
            a = np.loadtxt(os.path.join(d, f), delimiter=",", dtype=np.float64)
            out[f] = [Fraction(float(v)) for v in a[:, 0]]
    return out


class RoundTrip(Family):
    name = "recreate-then-match"
    doc = "Weaver(x,y)[.append_one_sample].recreate_from_average(n, S, **kw).integral_match(target rule): interval means"
    query_timeout_ms = 30000
    split_depth = 18

    def configs(self, tier):
        out = []
        ms = (2, 3, 4, 5) if tier == "quick" else (2, 3, 4, 5, 6, 7)
        ns = (2, 3, 4, 6) if tier == "quick" else (2, 3, 4, 5, 6, 8)
        i = 0
        for s in ALL6:
            adaptive = "Adaptive" in s
            for m in ms:
                if adaptive and m > (4 if tier == "quick" else 5):
                    continue
                for n in ns:
                    if adaptive and (n > 4 or (m >= 5 and n > 2)):
                        continue
                    ps = params_for(s, tier)
                    ps = [p for p in ps if "a" not in p or int(p["a"]) <= n]
                    for pi, p in enumerate(ps):
                        i += 1
                        if tier == "quick" and len(ps) > 3 and (pi + m + n) % 2:
                            continue
                        for trule in ("trapezoid", "rectangle"):
                            for app in ("none", "periodic", "last"):
                                if app == "last" and (i % 3 or tier == "quick"):
                                    continue
                                if app == "periodic" and tier == "quick" and (i + len(trule)) % 2:
                                    continue
                                symx_ = (m <= 3 and not adaptive and (i % 2 == 0))
                                grid = None if symx_ else [str(g) for g in gap_grids(m, tier, limit=2)[(i % 3) if m > 2 else 0]]
                                out.append({"strategy": s, "m": m, "n": n, "p": p, "trule": trule, "append": app, "grid": grid})
        return out

    def run(self, ctx, inst, strategy, m, n, p, trule, append, grid):
        from traffic_weaver import Weaver, rfa, process
        ys = ctx.reals("y", m)
        if grid is None:
            xs = ctx.reals("x", m)
            increasing(ctx, xs)
            x = arr(ctx, xs)
            X = list(xs) if ctx.symbolic else [ctx.exact(v) for v in xs]
        else:
            gx = [Fraction(g) for g in grid]
            x = cx(ctx, gx)
            X = [Sym.lift(g) for g in gx] if ctx.symbolic else [float(g) for g in gx]
        Y = list(ys)
        w = Weaver(x, arr(ctx, ys))
        if append != "none":
            w.append_one_sample(make_periodic=(append == "periodic"))
            X = X + [2 * X[-1] - X[-2]]
            Y = Y + [Y[0] if append == "periodic" else Y[-1]]
        M = len(X)
        w.recreate_from_average(n, rfa_class=getattr(rfa, strategy), **build_kwargs(ctx, p))
        w.integral_match(target_function_integral_method=trule)
        rx, ry = w.get()
        ctx.note("ry", ry)
        info = {"strategy": strategy, "p": p, "trule": trule, "append": append}
        L = (M - 1) * n + 1
        ctx.claim("length", len(rx) == L and len(ry) == L, info)
        if len(rx) != L or len(ry) != L:
            return
        RX, RY = list(rx), list(ry)
        for k in range(M - 1):
            got = o_integral(RX, RY, trule, k * n, (k + 1) * n)
            ctx.claim("interval-mean-is-original-average", ctx.eq(got, Y[k] * (X[k + 1] - X[k])), dict(info, k=k))
        if trule == "rectangle":
            ax, ay = process.average(rx, ry, n)
            ctx.claim("average:length", len(ax) == M and len(ay) == M, info)
            if len(ax) == M and len(ay) == M:
                for k in range(M):
                    ctx.claim("average-returns-original-abscissae", ctx.same(ax[k], X[k]), dict(info, k=k))
                # on a uniform-in-interval grid the rectangle mean of n samples is the interval average
                for k in range(M - 1):
                    ctx.claim("average-returns-original-averages", ctx.eq(ay[k], Y[k]), dict(info, k=k))


class LongSeries(Family):
    name = "long-series-cheap-strategies"
    doc = "recreated series of 37..100 samples (non-adaptive strategies: one path whatever the size), irregular spacing"
    differential = False

    def configs(self, tier):
        grids = {"one-missing": [0, 1, 2, 4, 5, 6], "two-missing": [0, 1, 2, 4, 5, 6, 7, 9, 10], "uniform": list(range(7)),
                 "irregular": [0, 2, 3, 7, 8, 10, 15]}
        out = []
        for gname, g in grids.items():
            for s in ("LinearFixedRFA", "ExpFixedRFA", "PiecewiseConstantRFA", "CubicSplineRFA"):
                for n in ((7, 12) if tier == "quick" else (7, 8, 12, 16)):
                    for app in ("none", "periodic"):
                        if tier == "quick" and (len(s) + n + len(gname) + len(app)) % 2:
                            continue
                        out.append({"grid": g, "strategy": s, "n": n, "trule": "rectangle" if (n + len(s)) % 2 else "trapezoid", "append": app})
        return out

    def run(self, ctx, inst, grid, strategy, n, trule, append):
        from traffic_weaver import Weaver, rfa, process
        gx = [Fraction(g) for g in grid]
        m = len(gx)
        ys = ctx.reals("y", m)
        X = [Sym.lift(g) for g in gx] if ctx.symbolic else [float(g) for g in gx]
        Y = list(ys)
        w = Weaver(cx(ctx, gx), arr(ctx, ys))
        if append != "none":
            w.append_one_sample(make_periodic=True)
            X, Y = X + [2 * X[-1] - X[-2]], Y + [Y[0]]
        M = len(X)
        w.recreate_from_average(n, rfa_class=getattr(rfa, strategy)).integral_match(target_function_integral_method=trule)
        rx, ry = w.get()
        ctx.claim("length", len(rx) == (M - 1) * n + 1)
        RX, RY = list(rx), list(ry)
        for k in range(M - 1):
            ctx.claim("interval-mean-is-original-average", ctx.eq(o_integral(RX, RY, trule, k * n, (k + 1) * n), Y[k] * (X[k + 1] - X[k])),
                      {"k": k, "strategy": strategy, "n": n, "grid": grid})
        if trule == "rectangle":
            ax, ay = process.average(rx, ry, n)
            for k in range(M - 1):
                ctx.claim("average-returns-original-averages", ctx.And(ctx.eq(ay[k], Y[k]), ctx.same(ax[k], X[k])), {"k": k})


class Bundled(Family):
    name = "bundled-dataset-abscissae"
    doc = "the abscissae of each bundled dataset (concrete) with symbolic values, non-adaptive strategies"
    differential = False

    def configs(self, tier):
        names = sorted(bundled_abscissae())
        if tier == "quick":
            names = names[:3]
        out = []
        for i, nm in enumerate(names):
            for s in ("LinearFixedRFA", "ExpFixedRFA", "PiecewiseConstantRFA", "CubicSplineRFA"):
                if tier == "quick" and (i + len(s)) % 2:
                    continue
                for n in ((2,) if tier == "quick" else (2, 4)):
                    out.append({"dataset": nm, "strategy": s, "n": n, "trule": "rectangle" if (i + n) % 2 else "trapezoid"})
        return out

    def run(self, ctx, inst, dataset, strategy, n, trule):
        from traffic_weaver import Weaver, rfa
        gx = bundled_abscissae()[dataset]
        m = len(gx)
        ys = ctx.reals("y", m)
        X = [Sym.lift(g) for g in gx] if ctx.symbolic else [float(g) for g in gx]
        w = Weaver(cx(ctx, gx), arr(ctx, ys)).recreate_from_average(n, rfa_class=getattr(rfa, strategy))
        w.integral_match(target_function_integral_method=trule)
        rx, ry = w.get()
        ctx.claim("length", len(rx) == (m - 1) * n + 1)
        RX, RY = list(rx), list(ry)
        for k in range(m - 1):
            got = o_integral(RX, RY, trule, k * n, (k + 1) * n)
            ctx.claim("interval-mean-is-original-average", ctx.eq(got, ys[k] * (X[k + 1] - X[k])), {"k": k, "dataset": dataset})


META = {
    "explanation": "The documented pipeline Weaver(x, y)[.append_one_sample(make_periodic)].recreate_from_average(n, S, "
                   "**params).integral_match(target rule) is executed as a whole on symbolic averages (and symbolic or "
                   "lattice abscissae): all six strategies' rfa(), the default closest-sample fixed-point search on the "
                   "recreated grid, the reference kept by the Weaver, the matching kernel per interval. For every "
                   "original interval the integral of the result under the target rule must equal average * width; "
                   "with the rectangle rule process.average(xs, ys, n) must return the original abscissae (identical "
                   "terms) and averages. The cubic spline is a contract stub whose values between the knots are "
                   "unconstrained reals - the claim holds for ANY values there, which is the point of matching.",
    "bounds": {"quick": "m in 2..5 (adaptive <=4), n in {2,3,4,6}, sampled parameter grids, both target rules, with/without "
                        "append_one_sample(make_periodic); x symbolic for part of the m<=3 non-adaptive configurations; "
                        "3 bundled datasets' abscissae (24 points) with symbolic values, n = 2",
               "thorough": "m in 2..7 (adaptive <=5), n in {2,3,4,5,6,8}, all bundled datasets, n in {2,4}"},
    "outside": ["m up to 60, n up to 64", "float rounding ('up to rounding' in the property is exact equality here)",
                "reference integration rule other than the default rectangle (covered by C01)"],
    "assumptions": ["x strictly increasing", "CubicSpline contract stub"],
    "stubs": ["scipy.interpolate.CubicSpline"],
}

if __name__ == "__main__":
    ap = argparse.ArgumentParser()
    ap.add_argument("--tier", default="quick")
    a = ap.parse_args()
    sys.exit(run_check("C02", "averaging round trip", [RoundTrip(), LongSeries(), Bundled()], a.tier, META))
