"""C06 - transitions follow the documented geometry and shape functions."""
import argparse
import sys
from fractions import Fraction

import numpy as np

from symx.runner import Family, arr, increasing, run_check
from checks.rfafam import (WINDOW, shape_configs, symbolic_param_configs, large_configs, typed_configs, inputs, make, effective_a, num, Geometry, windows_of,
                           expected_window_series, lin, o_exp, o_exp_xy, o_exp_lin, o_lin_exp_xy)

SHAPES = {"lin_fit": None, "exp_fit": o_exp, "exp_xy_fit": o_exp_xy, "exp_lin_fit": o_exp_lin,
          "lin_exp_xy_fit": o_lin_exp_xy}


class ShapeFunctions(Family):
    name = "funfit-closed-forms"
    doc = "the five elementary shape functions equal their documented closed forms and hit both end points"
    query_timeout_ms = 30000

    def configs(self, tier):
        exps = ["1", "2", "3", "1/2", "sym"] if tier == "quick" else ["1", "2", "3", "4", "5", "1/2", "3/2", "1/3", "sym"]
        out = []
        for f in SHAPES:
            for e in (exps if f != "lin_fit" else ["1"]):
                out.append({"fn": f, "exp": e})
        return out

    def run(self, ctx, inst, fn, exp):
        from traffic_weaver import funfit
        x0, x, x1 = ctx.real("x0"), ctx.real("xq"), ctx.real("x1")
        y0, y1 = ctx.real("y0"), ctx.real("y1")
        ctx.assume(ctx.lt(x0, x))
        ctx.assume(ctx.lt(x, x1))
        if exp == "sym":
            al = ctx.real("alpha")
            ctx.assume(ctx.lt(0, al))
            ctx.assume(ctx.le(al, 5))
        else:
            al = num(ctx, exp)
        f = getattr(funfit, fn)
        if fn == "lin_fit":
            got = f(x, (x0, y0), (x1, y1))
            ctx.claim("closed-form:lin_fit", ctx.eq(got, lin(x, (x0, y0), (x1, y1))))
            ctx.claim("endpoints:lin_fit", ctx.And(ctx.eq(f(x0, (x0, y0), (x1, y1)), y0), ctx.eq(f(x1, (x0, y0), (x1, y1)), y1)))
            return
        got = f(x, (x0, y0), (x1, y1), al)
        exp_v = SHAPES[fn](x, (x0, y0), (x1, y1), al)
        ctx.claim("closed-form:" + fn, ctx.eq(got, exp_v), {"exp": exp})
        ctx.claim("endpoints:" + fn, ctx.And(ctx.eq(f(x0, (x0, y0), (x1, y1), al), y0),
                                            ctx.eq(f(x1, (x0, y0), (x1, y1), al), y1)), {"exp": exp})
        # default exponent is 2
        if exp == "2":
            ctx.claim("default-exponent:" + fn, ctx.eq(f(x, (x0, y0), (x1, y1)), exp_v))


class Geometry_(Family):
    name = "window-geometry"
    split_depth = 12
    doc = "window strategies reproduce the documented series (independent oracle) for the windows they use"
    query_timeout_ms = 30000

    def configs(self, tier):
        if tier == "quick":
            cs = shape_configs(tier, WINDOW, sym_x_max_m=3, max_m=4, ns=(2, 3, 4), adaptive_max_m=4)
        else:
            cs = shape_configs(tier, WINDOW, sym_x_max_m=4, max_m=6, ns=(2, 3, 4, 6), adaptive_max_m=5)
        # the property fixes adaptive smoothing at its default 1
        return [c for c in cs + large_configs(tier) if "adaptive_smooth" not in c["p"]] + symbolic_param_configs(tier) + typed_configs(WINDOW, n=4)

    def run(self, ctx, inst, strategy, m, n, grid, p, typed=None):
        x, y, X, ys = inputs(ctx, m, grid, typed)
        obj = make(ctx, strategy, x, y, n, p)
        xs, zs = obj.rfa()
        ctx.note("zs", zs)
        G = Geometry(X, list(ys), n)
        a, al, ar, bl, br = windows_of(ctx, obj, strategy, p, G, x, y)
        info = {"strategy": strategy, "p": p, "a_l": [al[k] for k in range(m - 1)], "a_r": [ar[k] for k in range(m - 1)]}
        if "Adaptive" in strategy:
            for k in range(m - 1):
                right = G.avg(k + 1) - G.avg(k)
                left = G.avg(k) - G.avg(k - 1)
                r2, l2 = right * right, left * left
                both = ctx.And(ctx.ne(right, 0), ctx.ne(left, 0))
                ctx.claim("larger-jump-not-larger-window",
                          ctx.And(ctx.Implies(ctx.And(both, ctx.lt(l2, r2)), ar[k] <= al[k]),
                                  ctx.Implies(ctx.And(both, ctx.lt(r2, l2)), al[k] <= ar[k])), dict(info, k=k))
                ctx.claim("windows-within-[1,a]", ctx.Implies(both, 1 <= al[k] <= a and 1 <= ar[k] <= a), dict(info, k=k))
                ctx.claim("tie:both-jumps-zero->no-window",
                          ctx.Implies(ctx.And(ctx.eq(right, 0), ctx.eq(left, 0)), al[k] == 0 and ar[k] == 0), dict(info, k=k))
                ctx.claim("tie:right-jump-zero", ctx.Implies(ctx.And(ctx.eq(right, 0), ctx.ne(left, 0)),
                                                             al[k] == a // 2 and ar[k] == 0), dict(info, k=k))
                ctx.claim("tie:left-jump-zero", ctx.Implies(ctx.And(ctx.ne(right, 0), ctx.eq(left, 0)),
                                                            al[k] == 0 and ar[k] == a // 2), dict(info, k=k))
                ctx.claim("windows-sum-at-most-a", al[k] + ar[k] <= a, dict(info, k=k))
        e = Fraction(p.get("exp", "2") if p.get("exp") != "sym" else "2")
        expv = expected_window_series(G, al, ar, bl, br, (e if ctx.symbolic else float(e)))
        for t in range((m - 1) * n + 1):
            if expv[t] is None:
                continue
            ctx.claim("documented-series", ctx.eq(zs[t], expv[t]), dict(info, t=t))
        # border values explicitly (fixed strategies): linear interpolation between plateau ends
        if "Fixed" in strategy:
            for k in range(1, m - 1):
                p0 = (G.pos(k * n - ar[k - 1]), G.avg(k - 1))
                p1 = (G.pos(k * n + al[k]), G.avg(k))
                ctx.claim("border=interp-between-plateau-ends", ctx.eq(zs[k * n], lin(G.pos(k * n), p0, p1)), dict(info, k=k))


META = {
    "explanation": "(a) funfit.* executed on fully symbolic (x0 < x < x1, y0, y1) with rational exponents through exact "
                   "algebraic witnesses and with a symbolic exponent through an uninterpreted pow shared with the "
                   "oracle (a structurally different formula gives a sat answer that is then replayed with a concrete "
                   "exponent); claims: closed form and both end points. (b) the four window strategies' rfa() "
                   "compared sample by sample with an independent oracle written from the class docstrings (virtual "
                   "interval on each side, border value = linear interpolation between the plateau ends, lin / "
                   "lin+lin_exp_xy / exp_lin+lin pieces), for the windows the strategy uses. (c) adaptive windows "
                   "returned by the public static get_adaptive_transition_points: ordering vs the jumps, range [1,a], "
                   "the three documented tie cases, sum <= a; y symbolic so all tie patterns are explored paths.",
    "bounds": {"quick": "shape functions: exponents {1,2,3,1/2} + symbolic in (0,5]; strategies: m in 2..4, n {2,3,4}, "
                        "parameter grids as C05 with adaptive_smooth = 1; integer-typed x or y for the four window strategies (m=4, n=4)",
               "thorough": "exponents {1..5,1/2,3/2,1/3} + symbolic; m in 2..6 (adaptive <=5), n {2,3,4,6}"},
    "outside": ["adaptive_smooth != 1 (documentation and code disagree there; excluded by the property)",
                "long series / large n", "float rounding"],
    "assumptions": ["x strictly increasing", "symbolic exponent: pow uninterpreted (congruence only)"],
    "stubs": [],
}

if __name__ == "__main__":
    ap = argparse.ArgumentParser()
    ap.add_argument("--tier", default="quick")
    a = ap.parse_args()
    sys.exit(run_check("C06", "transition geometry", [ShapeFunctions(), Geometry_()], a.tier, META))
