#!/bin/sh
# run every registered check (tier $1, default quick) against /repo and report; evidence files are rewritten
cd "$(dirname "$0")/.."
T=${1:-quick}
for id in $(python3 -c "import json; print(' '.join(c['property_id'] for c in json.load(open('MANIFEST.json'))['checks']))"); do
  S=$(date +%s); OUT=$(./run $id $T 2>&1); RC=$?; E=$(( $(date +%s) - S ))
  echo "$id exit=$RC ${E}s $(echo "$OUT" | tail -1)"
  echo "$OUT" | grep -E "^(VIOLATION|KNOWN-FINDING|HARNESS-ERROR|INCONCLUSIVE|TRUNCATED|UNREPLAYED|INTERPOSER)" | head -5
done
