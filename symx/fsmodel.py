"""In-memory file system + fault oracle for the remote-dataset loader (datasets/_base.py).

Every name _base.py uses to touch the outside world (os, os.path, tempfile, urllib, open, hashlib,
pickle, gzip, numpy.loadtxt, time, environ) is rebound in that module's namespace to this model for
the duration of a run.  Each effectful call is a *step*: the fault oracle (solver variables owned by
the harness) decides whether the process is killed before it (a kill freezes the file system: the
dying run's later calls, including TemporaryDirectory clean-up, have no effect), whether a download
attempt fails and with what, and what payload arrives.  Concurrency: loaders run in threads that
hand a baton over at every call touching the shared cache path; which loader runs next is again a
solver-decided fork.
"""
from __future__ import annotations

import importlib
import posixpath
import threading
from contextlib import contextmanager
from urllib.error import URLError

import numpy as np

from . import core
from .core import Sym, HarnessError, PathAbort


class Killed(BaseException):
    """the modelled process was killed at a step boundary"""


class KillState:
    """Two kinds of kill. `frozen`: the (only) process is dead, the file system stays as it is. For the concurrent
    families additionally ONE loader (thread id kill_tid) can be killed before its own kill_at_t-th effectful call:
    its later calls have no effect and whatever it buffered is lost, while the other loaders go on."""
    _frozen = False
    kill_tid = None
    kill_at_t = None
    sched = None

    def init_kill(self):
        self.dead, self.tstep = set(), {}

    def cur_tid(self):
        s = self.sched
        return getattr(s.local, "tid", None) if s is not None else None

    def owner_dead(self, tid):
        return self._frozen or (tid is not None and tid in self.dead)

    @property
    def frozen(self):
        return self._frozen or (bool(self.dead) and self.cur_tid() in self.dead)

    @frozen.setter
    def frozen(self, v):
        self._frozen = v

    def thread_kill_check(self, what):
        t = self.cur_tid()
        if self.kill_tid is not None and t == self.kill_tid:
            self.tstep[t] = self.tstep.get(t, 0) + 1
            if bool(self.kill_at_t == self.tstep[t]):
                self.dead.add(t)
                raise Killed(what)


class Content:
    def __init__(self, kind, payload=None, complete=False):
        self.kind, self.payload, self.complete = kind, payload, complete

    def __repr__(self):
        return "%s(%r,%s)" % (self.kind, self.payload, "complete" if self.complete else "PARTIAL")


class Payload:
    """what a download delivers: klass is a solver integer 0 = the pinned file, 1 = corrupted, 2 = truncated"""

    def __init__(self, dataset, klass):
        self.dataset, self.klass = dataset, klass


class Digest:
    def __init__(self, env, content):
        self.env, self.content = env, content

    def _is_pinned(self, pinned):
        c = self.content
        if c is None or not c.complete or c.kind != "download":
            return False
        p = c.payload
        # an unregistered URL serves "the file whose checksum the loader of that URL pins"
        if self.env.pinned_of.setdefault(p.dataset, pinned) != pinned:
            return False
        k = p.klass
        return (k == 0) if isinstance(k, Sym) else (k == 0)

    def __eq__(self, o):
        return self._is_pinned(o)

    def __ne__(self, o):
        r = self._is_pinned(o)
        return core.Not(r)

    def __hash__(self):
        return id(self)

    def __format__(self, spec):
        return "<sha256 of %r>" % (self.content,)

    __str__ = lambda self: self.__format__("")


class DataArray(np.ndarray):
    """the parsed dataset: a real (2,2) array tagged with where it came from"""
    origin = None


def data_for(origin):
    k = abs(hash(origin)) % 1000
    a = np.array([[0.0, float(k)], [1.0, float(k) + 0.5]]).view(DataArray)
    a.origin = origin
    return a


class ModelEnv(KillState):
    def __init__(self, ctx, env_set=True, data_home="/DATA-HOME"):
        self.ctx = ctx
        self.init_kill()
        self.files, self.dirs = {}, {"/"}
        self.env_set, self.data_home = env_set, data_home
        self.step, self.frozen = 0, False
        self.kill_at = None
        self.attempt_outcome = lambda i: 0       # 0 ok, 1 URLError, 2 TimeoutError
        self.payload_klass = lambda i: 0
        self.attempts = 0
        self.net_calls = 0
        self.tmp_n = 0
        self.pinned_of = {}                      # dataset id -> pinned checksum string
        self.url_of = {}                         # url -> dataset id
        self.log = []
        self.sched = None
        self.shared = set()                      # paths whose access is a scheduling point
        self.access = []                         # every path read or written, in order
        self.sleeps = 0

    # ---------------------------------------------------------------- steps / kills / scheduling
    def restart(self):
        """a new process on the same file system"""
        self.frozen, self.kill_at, self.step = False, None, 0
        self.kill_tid = self.kill_at_t = None
        self.init_kill()
        self.attempt_outcome = lambda i: 0
        self.payload_klass = lambda i: 0
        self.attempts = 0

    def effect(self, what, path=None):
        """returns False when the (dead) process can no longer affect the file system"""
        if self.frozen:
            return False
        self.access.append(path)
        if self.sched is not None and path is not None and path in self.shared:
            self.sched.yield_point()
        self.step += 1
        self.log.append((self.step, what, path))
        if self.kill_at is not None and bool(self.kill_at == self.step):
            self.frozen = True
            raise Killed(what)
        self.thread_kill_check(what)
        return True

    def damage(self, p):
        """the cache file is cut short behind the loader's back (a full disk, an interrupted copy of the cache directory)"""
        c = self.files[p]
        self.files[p] = Content(c.kind, c.payload, complete=False)

    # ---------------------------------------------------------------- os.path / os
    def join(self, *a):
        return posixpath.join(*a)

    def exists(self, p):
        self.access.append(p)
        if self.sched is not None and p in self.shared:
            self.sched.yield_point()
        return p in self.files or p in self.dirs

    def expanduser(self, p):
        return "/HOME" + p[1:] if p.startswith("~") else p

    def makedirs(self, p, exist_ok=False, **kw):
        if p in self.dirs:
            if not exist_ok:
                raise FileExistsError(p)
            return
        if not self.effect("makedirs", p):
            return
        q = p
        while q not in self.dirs and q not in ("", "/"):
            self.dirs.add(q)
            q = posixpath.dirname(q)

    def rename(self, a, b):
        if not self.effect("rename", b):
            return
        if a not in self.files:
            raise FileNotFoundError(a)
        self.files[b] = self.files.pop(a)        # atomic (POSIX rename): assumption

    def remove_tree(self, d):
        for p in [p for p in self.files if p.startswith(d + "/")]:
            del self.files[p]
        for p in [p for p in self.dirs if p == d or p.startswith(d + "/")]:
            self.dirs.discard(p)

    # ---------------------------------------------------------------- tempfile
    def TemporaryDirectory(self, dir=None, **kw):
        env = self

        class TD:
            def __enter__(s):
                if not env.effect("mkdtemp"):
                    return "/dead"
                if dir not in env.dirs:
                    raise FileNotFoundError(dir)
                env.tmp_n += 1
                s.name = posixpath.join(dir, "tmp%d" % env.tmp_n)
                env.dirs.add(s.name)
                return s.name

            def __exit__(s, *exc):
                if env.frozen:
                    return False
                if not env.effect("rmtree-tmp"):
                    return False
                env.remove_tree(s.name)
                return False
        return TD()

    # ---------------------------------------------------------------- urllib
    def urlretrieve(self, url, filename, *a, **kw):
        i = self.attempts
        self.attempts += 1
        if not self.effect("urlretrieve:connect"):
            return
        self.net_calls += 1
        o = self.attempt_outcome(i)
        if not isinstance(o, int):
            o = 1 if bool(o == 1) else (2 if bool(o == 2) else 0)
        if o == 1:
            raise URLError("injected")
        if o == 2:
            raise TimeoutError("injected")
        ds = self.url_of.get(url, url)
        c = Content("download", Payload(ds, self.payload_klass(i)), complete=False)
        self.files[filename] = c                 # the file exists, partially written
        if not self.effect("urlretrieve:complete", filename):
            return
        c.complete = True
        return filename, None

    def sleep(self, s):
        self.sleeps += 1
        self.effect("sleep")

    # ---------------------------------------------------------------- open / hashlib / pickle / loadtxt
    def open(self, p, mode="r", *a, **kw):
        env = self
        if "w" in mode:
            if not env.effect("open-for-write", p):
                return _Dead()
            c = env.files.get(p)
            if c is None:
                c = Content("pickle", None, complete=False)
                env.files[p] = c
            else:
                # same inode: opening for writing truncates the file in place; an earlier writer still open on it
                # keeps writing into the same file (its buffer reaches it when that writer is flushed)
                c.kind, c.payload, c.complete = "pickle", None, False
            return _Writer(env, p, c)
        env.access.append(p)
        if env.sched is not None and p in env.shared:
            env.sched.yield_point()
        if p not in env.files:
            raise FileNotFoundError(p)
        return _Reader(env, p, env.files[p])

    def sha256(self):
        env = self

        class H:
            def __init__(s):
                s.c, s.chunks = None, []

            def update(s, buf):
                if isinstance(buf, _Chunk):
                    s.c = buf.content
                    s.chunks.append(buf.index)

            def hexdigest(s):
                # the digest covers exactly the chunks that were fed in; a file has N_CHUNKS of them
                return Digest(env, s.c if s.chunks == list(range(N_CHUNKS)) else None)
        return H()

    def pickle_dump(self, obj, f, *a, **kw):
        if isinstance(f, _Dead):
            return
        if not self.effect("pickle.dump", f.path):
            return
        # buffered write: the bytes reach the file only when the writer is flushed / closed / released
        f.pending = obj
        f.buffered = True

    def pickle_load(self, f, *a, **kw):
        c = f.content
        if c.kind != "pickle" or not c.complete:
            raise EOFError("Ran out of input (partial or foreign cache file %r)" % (c,))
        return c.payload

    def loadtxt(self, src, *a, **kw):
        p = src.path if isinstance(src, _Gz) else src
        if p not in self.files:
            raise FileNotFoundError(p)
        c = self.files[p]
        pay = c.payload
        k = pay.klass
        pinned = (c.complete and (bool(k == 0) if isinstance(k, Sym) else k == 0))
        return data_for(("verified", pay.dataset) if pinned else ("UNVERIFIED", pay.dataset, id(c)))

    # ---------------------------------------------------------------- queries used by the claims
    def cache_state(self, p, dataset):
        if p not in self.files:
            return "absent"
        c = self.files[p]
        if c.kind == "pickle" and c.complete and isinstance(c.payload, DataArray) and c.payload.origin == ("verified", dataset):
            return "complete-verified"
        return "CORRUPT:%r" % (c,)


class _Dead:
    def close(self):
        pass


N_CHUNKS = 3      # every modelled file is read in three chunks (a real payload is larger than one 8 KiB read)


class _Chunk:
    def __init__(self, content, index=0):
        self.content, self.index = content, index

    def __bool__(self):
        return True

    def __len__(self):
        return 1


class _Reader:
    def __init__(self, env, path, content):
        self.env, self.path, self.content, self.pos = env, path, content, 0

    def read(self, n=-1):
        if self.pos >= N_CHUNKS:
            return b""
        self.pos += 1
        return _Chunk(self.content, self.pos - 1)

    def __enter__(self):
        return self

    def __exit__(self, *a):
        return False

    def close(self):
        pass


class _Writer(_Reader):
    """buffered writer: what was written becomes visible in the file when the object is closed (explicitly, by a
    with-block, or by CPython releasing the last reference); a killed process never flushes."""
    buffered = False
    closed = False
    pending = None

    def __init__(self, env, path, content):
        _Reader.__init__(self, env, path, content)
        self.owner = env.cur_tid()       # the object may be released by another thread after its owner was killed

    def _flush(self):
        if self.buffered and not self.env.owner_dead(self.owner):
            self.content.kind, self.content.payload, self.content.complete = "pickle", self.pending, True
        self.closed = True

    def close(self):
        if self.closed:
            return
        if self.env.effect("close-flush", self.path):
            self._flush()

    def __exit__(self, *a):
        self.close()
        return False

    def __del__(self):
        if not self.closed:
            self._flush()


class _Gz:
    """gzip.GzipFile(filename=...) as the loader uses it: a handle that np.loadtxt reads; usable as a context manager"""

    def __init__(self, filename=None, mode="rb", **kw):
        self.path = filename
        self.closed = False

    def close(self):
        self.closed = True

    def __enter__(self):
        return self

    def __exit__(self, *exc):
        self.close()
        return False


# -------------------------------------------------------------------- baton scheduler

class Scheduler:
    """Runs n callables in threads, exactly one at a time; at every yield point the next runner is chosen
    by `choose(alive_ids)` (a solver-decided fork in the harness)."""

    def __init__(self, choose):
        self.choose = choose
        self.cv = threading.Condition()
        self.turn = None
        self.alive = []
        self.results = {}
        self.errors = {}
        self.fatal = None
        self.local = threading.local()

    def run(self, fns):
        threads = []
        self.alive = list(range(len(fns)))
        ctx = core.CUR

        def body(i, fn):
            self.local.tid = i
            with self.cv:
                while self.turn != i and self.fatal is None:
                    self.cv.wait()
            try:
                if self.fatal is None:
                    self.results[i] = fn()
            except (PathAbort, HarnessError, core.SubtreeCut, core.NonFinite) as e:
                self.fatal = e
            except Killed as e:
                self.errors[i] = e
            except Exception as e:  # noqa: BLE001
                self.errors[i] = e
            finally:
                with self.cv:
                    if i in self.alive:
                        self.alive.remove(i)
                    self._pick_locked()
                    self.cv.notify_all()

        for i, fn in enumerate(fns):
            t = threading.Thread(target=body, args=(i, fn), daemon=True)
            threads.append(t)
            t.start()
        with self.cv:
            self._pick_locked()
            self.cv.notify_all()
        for t in threads:
            t.join(120)
            if t.is_alive():
                self.fatal = self.fatal or HarnessError("scheduler: thread did not finish")
        if self.fatal is not None:
            raise self.fatal
        return self.results, self.errors

    def _pick_locked(self):
        if self.fatal is not None or not self.alive:
            self.turn = None
            return
        try:
            self.turn = self.choose(list(self.alive))
        except BaseException as e:  # noqa: BLE001  (PathAbort etc. from the fork)
            self.fatal = e
            self.turn = None

    def yield_point(self):
        i = getattr(self.local, "tid", None)
        if i is None:
            return
        with self.cv:
            self._pick_locked()
            self.cv.notify_all()
            while self.turn != i and self.fatal is None:
                self.cv.wait()
        if self.fatal is not None:
            raise Killed("scheduler aborted")


# -------------------------------------------------------------------- installation

@contextmanager
def installed(env):
    base = importlib.import_module("traffic_weaver.datasets._base")

    class _Path:
        join = staticmethod(env.join)
        exists = staticmethod(env.exists)
        expanduser = staticmethod(env.expanduser)

    class _OS:
        makedirs = staticmethod(env.makedirs)
        rename = staticmethod(env.rename)
        replace = staticmethod(env.rename)          # os.replace: the same atomic move on POSIX
        path = _Path

    class _Environ:
        @staticmethod
        def get(k, default=None):
            if k == "TRAFFIC_WEAVER_DATA" and env.env_set:
                return env.data_home
            return default

    class _Hashlib:
        sha256 = staticmethod(env.sha256)

    class _Pickle:
        dump = staticmethod(env.pickle_dump)
        load = staticmethod(env.pickle_load)

    class _Time:
        sleep = staticmethod(env.sleep)

    class _Shutil:
        @staticmethod
        def rmtree(p, ignore_errors=False, **kw):
            if not env.effect("rmtree", p):
                return
            if p not in env.dirs and not ignore_errors:
                raise FileNotFoundError(p)
            env.remove_tree(p)

    class _NP:
        loadtxt = staticmethod(env.loadtxt)
        float64 = np.float64

        def __getattr__(self, k):
            return getattr(np, k)

    repl = {"os": _OS, "path": _Path, "makedirs": env.makedirs, "environ": _Environ, "hashlib": _Hashlib, "shutil": _Shutil,
            "pickle": _Pickle, "time": _Time, "np": _NP(), "TemporaryDirectory": env.TemporaryDirectory,
            "urlretrieve": env.urlretrieve, "GzipFile": _Gz, "open": env.open}
    saved = {}
    missing = object()
    for k, v in repl.items():
        saved[k] = base.__dict__.get(k, missing)
        setattr(base, k, v)
    try:
        yield base
    finally:
        for k, v in saved.items():
            if v is missing:
                delattr(base, k)
            else:
                setattr(base, k, v)
