"""C20 - invalid requests are refused with ValueError and leave the Weaver untouched."""
import argparse
import sys
from fractions import Fraction

import numpy as np

from symx.runner import Family, arr, increasing, run_check
from symx.core import Sym
from checks.weaverfam import make_state, terms
from checks.c08 import seq_equal

BAD_NAMES = ("", "Trapezoid", "rectangle ", "trapz", "simpson", "bogus", None)

WEAVER_CASES = (
    "recreate:n-symbolic-below-2", "recreate:n=1", "recreate:n=0", "recreate:n=-2",
    "match:unknown-target-rule", "match:unknown-reference-rule", "match:unknown-search-strategy",
    "match:fixed-point-not-a-sample", "match:too-many-fixed-points", "match:too-many-fixed-indices",
    "interpolate:unknown-method", "interpolate:neither-n-nor-grid", "interpolate:first-end-differs",
    "interpolate:last-end-differs",
    "truncate_by_value:left>=right", "truncate_by_value:left>=right(ratios)", "truncate_by_value:left==right",
    "truncate_by_value:empty-for-some-series(ratio-left)", "truncate_by_value:empty-for-some-series(ratio-right)",
    "truncate_by_index:start<0", "truncate_by_index:stop>len",
    "slice_by_index:start<0", "slice_by_index:stop>len",
    "slice_by_value:start-not-a-sample", "slice_by_value:stop-not-a-sample",
)


def invoke(ctx, w, case, name):
    """issue the invalid request with arbitrary (symbolic) surrounding arguments"""
    from traffic_weaver import rfa
    X = [ctx.exact(v) for v in w.x] if not ctx.symbolic else list(w.x)
    n = len(X)
    if case == "recreate:n-symbolic-below-2":
        k = ctx.real("n")
        ctx.assume(ctx.lt(k, 2))
        return w.recreate_from_average(k, rfa_class=rfa.LinearFixedRFA)
    if case.startswith("recreate:n="):
        return w.recreate_from_average(int(case.split("=")[1]), rfa_class=(rfa.ExpAdaptiveRFA if name else rfa.PiecewiseConstantRFA))
    if case == "match:unknown-target-rule":
        return w.integral_match(target_function_integral_method=name)
    if case == "match:unknown-reference-rule":
        return w.integral_match(reference_function_integral_method=name)
    if case == "match:unknown-search-strategy":
        return w.integral_match(fixed_points_finding_strategy=name)
    if case == "match:fixed-point-not-a-sample":
        v = ctx.real("fp")
        V = ctx.exact(v) if not ctx.symbolic else v
        for xi in X:
            ctx.assume(V != xi)
        return w.integral_match(fixed_points_in_x=[w.x[0], v, w.x[-1]] if (not ctx.symbolic) else arr(ctx, [w.x[0], v, w.x[-1]]))
    if case == "match:too-many-fixed-points":
        return w.integral_match(fixed_points_in_x=list(w.x) + [w.x[-1]])
    if case == "match:too-many-fixed-indices":
        return w.integral_match(fixed_points_indices_in_x=list(range(n)) + [0])
    if case == "interpolate:unknown-method":
        return w.interpolate(3, method=name)
    if case == "interpolate:neither-n-nor-grid":
        return w.interpolate()
    if case in ("interpolate:first-end-differs", "interpolate:last-end-differs"):
        d = ctx.real("d")
        ctx.assume(ctx.ne(d, 0))
        g = [w.x[0], (w.x[0] + w.x[-1]) / 2, w.x[-1]]
        if case.startswith("interpolate:first"):
            g[0] = g[0] + d
        else:
            g[2] = g[2] + d
        return w.interpolate(new_x=arr(ctx, g))
    if case.startswith("truncate_by_value:empty-for-some-series"):
        # mixed absolute / ratio bounds: the requested range is empty or inverted for at least one of the two
        # series the operation has to cut (working, reference)
        l, r = ctx.real("l"), ctx.real("r")
        lr, rr = ("ratio-left" in case), ("ratio-right" in case)
        conds = []
        for series in (w.x, w.reference_x):
            S = [ctx.exact(v) for v in series] if not ctx.symbolic else list(series)
            span = S[-1] - S[0]
            L_, R_ = (ctx.exact(l) if not ctx.symbolic else l), (ctx.exact(r) if not ctx.symbolic else r)
            la = L_ * span + S[0] if lr else L_
            ra = R_ * span + S[0] if rr else R_
            conds.append(la >= ra)
        ctx.assume(ctx.Or(*conds))
        return w.truncate_by_value(l, r, x_left_as_ratio=lr, x_right_as_ratio=rr)
    if case.startswith("truncate_by_value"):
        l, r = ctx.real("l"), ctx.real("r")
        if case.endswith("left==right"):
            ctx.assume(ctx.eq(l, r))
            if not ctx.symbolic:
                r = l
        else:
            ctx.assume(ctx.le(r, l))
        ratios = "ratios" in case
        return w.truncate_by_value(l, r, x_left_as_ratio=ratios, x_right_as_ratio=ratios)
    if case == "truncate_by_index:start<0":
        return w.truncate_by_index(-1 - (n % 2), n)
    if case == "truncate_by_index:stop>len":
        return w.truncate_by_index(0, n + 1 + (n % 2))
    if case == "slice_by_index:start<0":
        return w.slice_by_index(-1, n)
    if case == "slice_by_index:stop>len":
        return w.slice_by_index(0, n + 2)
    if case in ("slice_by_value:start-not-a-sample", "slice_by_value:stop-not-a-sample"):
        v = ctx.real("sv")
        V = ctx.exact(v) if not ctx.symbolic else v
        for xi in X:
            ctx.assume(V != xi)
        return w.slice_by_value(start=v) if "start" in case else w.slice_by_value(stop=v)
    raise KeyError(case)


class Rejected(Family):
    name = "weaver-rejects-and-keeps-state"
    doc = "each invalid-argument class, issued on arbitrary fresh / tracked / reshaped states"

    def configs(self, tier):
        out = []
        Ls = (4,) if tier == "quick" else (4, 5, 6)
        for L in Ls:
            for kind in ("fresh", "tracked", "reshaped", "reshaped-other-range"):
                for case in WEAVER_CASES:
                    if L > 5 and kind == "reshaped-other-range" and case == "match:unknown-reference-rule":
                        continue    # two unrelated 6-point grids through the matching front end: ~26k paths per name (measured 1450 s)
                    names = BAD_NAMES if ("unknown" in case) else (None,)
                    if case.startswith("recreate:n="):
                        names = (None, "adaptive")
                    if tier == "quick" and "unknown" in case:
                        names = names[::2] if kind != "fresh" else names
                    for nm in names:
                        out.append({"L": L, "kind": kind, "case": case, "name": nm})
        return out

    def run(self, ctx, inst, L, kind, case, name):
        st = make_state(ctx, L, kind)
        w = st.w
        fields = ("x", "y", "reference_x", "reference_y", "original_x", "original_y")
        before_obj = {f: getattr(w, f) for f in fields}
        before_terms = {f: terms(getattr(w, f)) for f in fields}
        info = {"case": case, "state": kind, "name": name}
        raised = None
        try:
            invoke(ctx, w, case, name)
        except ValueError:
            raised = "ValueError"
        except (IndexError, AttributeError, TypeError, KeyError, ZeroDivisionError) as e:
            raised = type(e).__name__
        ctx.claim("rejected-with-ValueError", raised == "ValueError", dict(info, raised=raised))
        for f in fields:
            now = getattr(w, f)
            same_obj = now is before_obj[f]
            same_vals = isinstance(now, np.ndarray) and seq_equal(ctx, terms(now), before_terms[f])
            ctx.claim("state-untouched", ctx.And(same_obj, same_vals), dict(info, field=f))


class Constructors(Family):
    name = "constructors-and-helpers"
    doc = "length mismatch, non-(N,2) arrays, unknown rule / strategy names in the helper functions, unknown dataset"
    differential = False

    def configs(self, tier):
        out = [{"case": "len-mismatch", "a": a, "b": b} for a in (0, 1, 2, 3, 5) for b in (0, 1, 2, 4) if a != b]
        out += [{"case": "from_2d_array", "shape": s} for s in ((3,), (3, 1), (3, 3), (2, 2, 2), (0, 3), (2, 0))]
        out += [{"case": "integral-rule", "name": n} for n in BAD_NAMES]
        out += [{"case": "search-strategy", "name": n} for n in BAD_NAMES]
        out += [{"case": "process-interpolate-method", "name": n} for n in BAD_NAMES]
        out += [{"case": "kernel-rule", "name": n} for n in BAD_NAMES if n is not None]
        out += [{"case": "rfa-n", "n": n} for n in (1, 0, -1, "sym")]
        out += [{"case": "dataset", "name": n} for n in ("", "sandvine", "sandvine_", "sandvine-nope", "mix-it", "ams-ix_hourly",
                                                          "load_sandvine_audio", "fetch_ams_ix_daily", "nope", "get_data_home")]
        return out

    def run(self, ctx, inst, case, **kw):
        from traffic_weaver import Weaver, sorted_array_utils as sau, process, match, rfa
        raised = None
        try:
            if case == "len-mismatch":
                xs, ys = ctx.reals("x", kw["a"]), ctx.reals("y", kw["b"])
                Weaver(arr(ctx, xs) if kw["a"] % 2 else list(xs), arr(ctx, ys))
            elif case == "from_2d_array":
                Weaver.from_2d_array(np.zeros(kw["shape"]))
            elif case == "integral-rule":
                xs = ctx.reals("x", 3)
                sau.integral(arr(ctx, xs), arr(ctx, xs), kw["name"])
            elif case == "search-strategy":
                xs = ctx.reals("x", 2)
                increasing(ctx, xs)
                sau.find_closest_element_indices_to_values(arr(ctx, xs), arr(ctx, xs[:1]), strategy=kw["name"])
            elif case == "process-interpolate-method":
                xs = ctx.reals("x", 4)
                increasing(ctx, xs)
                r = process.interpolate(arr(ctx, xs), arr(ctx, xs), arr(ctx, xs), method=kw["name"])
                raised = "returned %s" % type(r).__name__
            elif case == "kernel-rule":
                xs = ctx.reals("x", 4)
                increasing(ctx, xs)
                match._integral_matching_stretch(arr(ctx, xs), arr(ctx, xs), integral_method=kw["name"])
            elif case == "rfa-n":
                xs = ctx.reals("x", 3)
                increasing(ctx, xs)
                n = kw["n"]
                if n == "sym":
                    n = ctx.real("n")
                    ctx.assume(ctx.lt(n, 2))
                rfa.ExpFixedRFA(arr(ctx, xs), arr(ctx, xs), n)
            elif case == "dataset":
                from traffic_weaver.datasets import load_dataset
                load_dataset(kw["name"])
            if raised is None:
                raised = "nothing"
        except ValueError:
            raised = "ValueError"
        except Exception as e:  # noqa: BLE001
            raised = type(e).__name__
        ctx.claim("rejected-with-ValueError", raised == "ValueError", {"case": case, "raised": raised, **{k: str(v) for k, v in kw.items()}})


META = {
    "explanation": "Every invalid-argument class of the property is issued with its invalid region symbolic where it is "
                   "numeric (n < 2 as a real; a fixed point / slicing value constrained to differ from every sample; "
                   "left >= right; an interpolation grid whose end point is off by a symbolic d != 0) or drawn from a "
                   "list of wrong names incl. near misses ('Trapezoid', 'rectangle ', '', None) where it is a name, on "
                   "Weavers in arbitrary symbolic states of three kinds (fresh / tracked / reshaped: so that "
                   "working, reference and original all differ). Claims per path: the exception is ValueError (not "
                   "IndexError/AttributeError/TypeError, not a silent None), and the six state arrays are the very "
                   "same objects holding the same terms as before the call.",
    "bounds": {"quick": "states of 4 points (reshaped working series 6)", "thorough": "states of 4..5 points"},
    "outside": ["wrong names are a finite list, not a symbolic string (dataset names: see C18 for the symbolic-string "
                "treatment)", "invalid requests not named by the property"],
    "assumptions": ["state assumptions as in C08/C09"],
    "stubs": ["scipy splines, numpy.random.normal as in C13/C15"],
}

if __name__ == "__main__":
    ap = argparse.ArgumentParser()
    ap.add_argument("--tier", default="quick")
    a = ap.parse_args()
    sys.exit(run_check("C20", "invalid requests", [Rejected(), Constructors()], a.tier, META))
