"""C09 - Weaver state stays well-formed; caller data and the original are never corrupted."""
import argparse
import sys
from fractions import Fraction

import numpy as np

from symx.runner import Family, arr, increasing, run_check
from symx.core import Sym
from checks.weaverfam import make_state, domain_ops, apply_domain, apply_reshape, RESHAPES, terms
from checks.c08 import seq_equal
from checks.c13 import WeaverGridIntegerTypedSeries

OTHER = ("restore_original", "slice_by_index", "slice_by_value", "to_function", "to_2d_array", "copy-semantics")


def well_formed(ctx, w, info, tag=""):
    x, y = w.get()
    ctx.claim(tag + "wf:x-is-ndarray", isinstance(x, np.ndarray), info)
    ctx.claim(tag + "wf:y-is-ndarray", isinstance(y, np.ndarray), info)
    if not (isinstance(x, np.ndarray) and isinstance(y, np.ndarray)):
        return
    ctx.claim(tag + "wf:one-dimensional-equal-length", x.ndim == 1 and y.ndim == 1 and len(x) == len(y), info)
    for v in list(x) + list(y):
        ctx.claim(tag + "wf:finite", ctx.is_finite(v), info)
    xs = list(x)
    for a, b in zip(xs, xs[1:]):
        ctx.claim(tag + "wf:x-strictly-increasing", ctx.lt(a, b), info)


def caller_untouched(ctx, st, info):
    if st.caller_x is None:
        return
    ctx.claim("caller-x-not-modified", seq_equal(ctx, list(st.caller_x), st.caller_x_terms), info)
    ctx.claim("caller-y-not-modified", seq_equal(ctx, list(st.caller_y), st.caller_y_terms), info)
    for label, a, t in st.other_caller_arrays:
        ctx.claim("caller-array-not-modified", seq_equal(ctx, list(a), t), dict(info, array=label))


def all_ops(tier):
    out = [("domain", d) for d in domain_ops(tier)]
    out += [("reshape", r) for r in RESHAPES]
    out += [("other", "restore_original")]
    return out


def do_op(ctx, w, kind, d, tag=""):
    if kind == "domain":
        apply_domain(ctx, w, d, tag=tag)
    elif kind == "other":
        getattr(w, d)()
    else:
        apply_reshape(ctx, w, d, tag=tag)


class Step(Family):
    name = "inductive-step-any-operation"
    doc = "from arbitrary well-formed states (fresh on the caller's arrays / tracked / reshaped): one valid operation"
    query_timeout_ms = 30000
    split_depth = 14

    def configs(self, tier):
        out = []
        Ls = (4,) if tier == "quick" else (4, 5, 6)
        for L in Ls:
            for kind in ("fresh", "fresh-list", "tracked", "reshaped", "gridded", "reshaped-other-range"):
                for (k, d) in all_ops(tier):
                    if k == "reshape" and d == "recreate:ExpAdaptiveRFA" and (kind.startswith("reshaped") or L > 4):
                        continue
                    if kind == "fresh-list" and k == "domain" and d["op"] not in ("append_one_sample", "repeat", "shift_x", "normalize_y"):
                        continue
                    # normalising y locates min/max of three series by comparisons: in the reshaped state that is a
                    # product of orderings with nothing new to see (covered from the fresh and tracked states)
                    if (kind.startswith("reshaped") or kind == "gridded") and k == "domain" and d["op"] == "normalize_y":
                        continue
                    if kind == "reshaped-other-range" and not (k == "domain" and d["op"] in ("truncate_by_value", "repeat", "shift_x")
                                                               or k == "reshape" and d in ("integral_match", "interpolate:n", "trend")):
                        continue
                    if kind == "gridded" and k == "reshape" and d.startswith("recreate:") and d != "recreate:LinearFixedRFA":
                        continue
                    # two unrelated symbolic grids: keep the other-range state one point shorter (orderings multiply)
                    out.append({"L": 3 if kind == "reshaped-other-range" else L, "kind": kind, "opkind": k, "d": d})
        return out

    def run(self, ctx, inst, L, kind, opkind, d):
        st = make_state(ctx, L, "fresh" if kind.startswith("fresh") else kind, container="list" if kind == "fresh-list" else "array")
        w = st.w
        OX, OY = terms(w.original_x), terms(w.original_y)
        info = {"state": kind, "op": d}
        do_op(ctx, w, opkind, d)
        well_formed(ctx, w, info)
        caller_untouched(ctx, st, info)
        if not (opkind == "domain" and isinstance(d, dict) and d["op"].startswith("normalize")):
            ctx.claim("original-unchanged", ctx.And(seq_equal(ctx, terms(w.original_x), OX), seq_equal(ctx, terms(w.original_y), OY)), info)
        ox, oy = w.get_original()
        ctx.claim("get_original-well-formed", isinstance(ox, np.ndarray) and isinstance(oy, np.ndarray) and len(ox) == len(oy), info)


class ListArguments(Family):
    name = "list-arguments"
    doc = "operations that accept sequences keep the state well-formed when handed Python lists"

    def configs(self, tier):
        return [{"L": L, "which": wch} for L in (4,) for wch in ("interpolate-new_x-list", "constructor-lists", "from_2d_array")]

    def run(self, ctx, inst, L, which):
        from traffic_weaver import Weaver
        xs, ys = ctx.reals("x", L), ctx.reals("y", L)
        increasing(ctx, xs)
        if which == "interpolate-new_x-list":
            mid = ctx.real("mid")
            ctx.assume(ctx.And(ctx.lt(xs[0], mid), ctx.lt(mid, xs[-1])))
            w = Weaver(arr(ctx, xs), arr(ctx, ys)).interpolate(new_x=[xs[0], mid, xs[-1]])
            well_formed(ctx, w, {"which": which})
            # a following operation must work as on arrays
            s = ctx.real("s")
            w.shift_x(s)
            well_formed(ctx, w, {"which": which, "then": "shift_x"}, tag="then:")
        elif which == "constructor-lists":
            w = Weaver(list(xs), list(ys))
            well_formed(ctx, w, {"which": which})
        else:
            if ctx.symbolic:
                a2 = np.empty((L, 2), dtype=object)
                for i in range(L):
                    a2[i, 0], a2[i, 1] = xs[i], ys[i]
            else:
                a2 = np.column_stack([np.array(xs, dtype=float), np.array(ys, dtype=float)])
            w = Weaver.from_2d_array(a2)
            well_formed(ctx, w, {"which": which})
            t = w.to_2d_array()
            ctx.claim("to_2d_array-roundtrip", t.shape == (L, 2) and all(
                (ctx.same(t[i, 0], xs[i]) is True or (not ctx.symbolic and ctx.same(t[i, 0], xs[i]))) for i in range(L)))


class Restore(Family):
    name = "restore-original"
    doc = "after restore_original the object equals Weaver(*get_original()) observably and for one further operation"
    query_timeout_ms = 30000
    split_depth = 14

    def configs(self, tier):
        out = []
        follow = [("domain", d) for d in domain_ops("quick") if d["op"] in ("shift_y", "scale_y", "append_one_sample", "repeat", "truncate_by_index")]
        follow += [("reshape", r) for r in ("recreate:LinearFixedRFA", "integral_match", "trend", "interpolate:n")]
        # (smooth / noise would draw independent stub values for the two objects and are not comparable)
        follow += [("reshape", "trend:normalized")]
        for kind in ("tracked", "reshaped"):
            for (k, d) in follow:
                out.append({"L": 3 if kind == "reshaped" else 4, "kind": kind, "opkind": k, "d": d})
        return out

    def run(self, ctx, inst, L, kind, opkind, d):
        from traffic_weaver import Weaver
        st = make_state(ctx, L, kind)
        w = st.w
        OX0, OY0 = terms(w.original_x), terms(w.original_y)
        w.restore_original()
        ox, oy = w.get_original()
        v = Weaver(arr(ctx, list(ox)), arr(ctx, list(oy)))
        info = {"state": kind, "then": d}
        for name in ("x", "y", "reference_x", "reference_y"):
            ctx.claim("restored:" + name + "=fresh", seq_equal(ctx, terms(getattr(w, name)), terms(getattr(v, name))), info)
        for a in (w.x, w.y):
            ctx.claim("restored:not-aliased-to-original", not np.shares_memory(a, w.original_x) and not np.shares_memory(a, w.original_y), info)
        # one further arbitrary operation with the same arguments on both objects
        if ctx.symbolic:
            # same symbolic arguments: run on w, then replay the recorded argument names on v
            import symx.core as core
            before = dict(core.CUR.input_vars)
            do_op(ctx, w, opkind, d, tag="f_")
            new = {k: s for k, s in core.CUR.input_vars.items() if k not in before}

            class Replayer:
                symbolic = True

                def __getattr__(self, a):
                    return getattr(ctx, a)

                def real(self, name):
                    return new[name]
            do_op(Replayer(), v, opkind, d, tag="f_")
        else:
            do_op(ctx, w, opkind, d, tag="f_")
            vals = dict(ctx.model)

            class Replayer2:
                symbolic = False

                def __getattr__(self, a):
                    return getattr(ctx, a)
            do_op(Replayer2(), v, opkind, d, tag="f_")
        for name in ("x", "y", "reference_x", "reference_y"):
            ctx.claim("after-further-op:" + name + "=fresh", seq_equal(ctx, terms(getattr(w, name)), terms(getattr(v, name))), info)
        if not (opkind == "domain" and d["op"].startswith("normalize")):
            ctx.claim("after-further-op:original-unchanged",
                      ctx.And(seq_equal(ctx, terms(w.original_x), OX0), seq_equal(ctx, terms(w.original_y), OY0)), info)


PROGRAM_OPS = ([("domain", d) for d in domain_ops("quick")] +
               [("reshape", r) for r in ("recreate:LinearFixedRFA", "integral_match", "interpolate:n", "interpolate:grid", "trend", "smooth")] +
               [("other", "restore_original")])


class Programs(Family):
    name = "bounded-programs"
    doc = "all programs of k operations (symbolic arguments) from a fresh Weaver on the caller's arrays; claims after each step"
    query_timeout_ms = 30000
    split_depth = 14

    def configs(self, tier):
        import itertools
        k = 2
        out = []
        for seq in itertools.product(range(len(PROGRAM_OPS)), repeat=k):
            out.append({"L": 4, "seq": list(seq)})
        if tier != "quick":
            for i, seq in enumerate(itertools.product(range(len(PROGRAM_OPS)), repeat=3)):
                if i % 11 == 0:
                    names = [PROGRAM_OPS[j][1]["op"] if isinstance(PROGRAM_OPS[j][1], dict) else PROGRAM_OPS[j][1] for j in seq]
                    if names[0] == "repeat" and names[1] == "integral_match" and names[2] == "normalize_y":
                        # min/max over 8+ matched values: ordering queries between roots of quadratics, each one
                        # a solver timeout (measured: 32 paths in 1750 s); (integral_match, normalize_y) stays in k = 2
                        continue
                    out.append({"L": 4, "seq": list(seq)})
        return out

    def run(self, ctx, inst, L, seq):
        st = make_state(ctx, L, "fresh")
        w = st.w
        OX, OY = terms(w.original_x), terms(w.original_y)
        normalised = False
        names = []
        for i, j in enumerate(seq):
            kind, d = PROGRAM_OPS[j]
            names.append(d["op"] if isinstance(d, dict) else d)
            if len(w.x) < 2 or (kind == "reshape" and d == "smooth" and len(w.x) < 4):
                return
            do_op(ctx, w, kind, d, tag="p%d_" % i)
            normalised = normalised or (kind == "domain" and d["op"].startswith("normalize"))
            info = {"program": list(names)}
            well_formed(ctx, w, info)
            caller_untouched(ctx, st, info)
            if not normalised:
                ctx.claim("original-unchanged", ctx.And(seq_equal(ctx, terms(w.original_x), OX), seq_equal(ctx, terms(w.original_y), OY)), info)


META = {
    "explanation": "Inductive step over the whole public Weaver API: from arbitrary well-formed symbolic states of three "
                   "kinds (fresh on the caller's own arrays - working aliases them exactly as np.asarray does; "
                   "tracked: after a domain history; reshaped: working and reference differ) each operation kind is "
                   "executed once with symbolic admissible arguments and z3 decides that the processed series is a "
                   "pair of equal-length 1-D ndarrays with strictly increasing abscissae and no feasible non-finite "
                   "(zero-division) path, that the caller's arrays still hold their original terms, and that the "
                   "stored original is untouched (normalise excepted). restore_original: from arbitrary states the "
                   "four observable series equal those of Weaver(*get_original()) and stay equal after one further "
                   "operation with identical arguments on both objects.",
    "bounds": {"quick": "series of 4 points (reshaped working series 6); 14 domain-operation variants + 13 reshaping "
                        "variants + restore_original x 6 state kinds; all 21^2 two-operation programs from a fresh Weaver; integer-typed series interpolated onto explicit real grids",
               "thorough": "series of 4..6 points; plus every 11th three-operation program"},
    "outside": ["the property's 40-point series and 10-step programs are covered through the inductive argument only",
                "float rounding", "SciPy spline numerics, NumPy's generator (stubs)"],
    "assumptions": ["each operation's documented precondition (see C08)", "noise: std given (snr needs non-zero signal power)"],
    "stubs": ["scipy splines (contract stubs)", "numpy.random.normal (recording stub)"],
}

if __name__ == "__main__":
    ap = argparse.ArgumentParser()
    ap.add_argument("--tier", default="quick")
    a = ap.parse_args()
    sys.exit(run_check("C09", "well-formed state", [Step(), ListArguments(), Restore(), Programs(), WeaverGridIntegerTypedSeries()], a.tier, META))
