"""Replay a recorded counterexample against the plain float64 code:  python -m symx.replay <file.json>"""
import importlib
import json
import sys

from .runner import replay_concrete, load_tw


def main():
    rec = json.load(open(sys.argv[1]))
    load_tw()
    mod = importlib.import_module(rec["module"])
    fam = getattr(mod, rec["family_class"])()
    failed, ctx = replay_concrete(fam, rec["config"], rec["model"])
    print("inputs:", rec["model"])
    print("config:", rec["config"])
    print("claims evaluated:", [(n, ok) for n, ok, _ in ctx.claims][:40])
    if failed:
        print("REPRODUCED: failed claims", failed)
        sys.exit(1)
    print("not reproduced")
    sys.exit(0)


if __name__ == "__main__":
    main()
