"""C03 - matching moves only interior samples, along the documented profile."""
import argparse
import sys

from symx.runner import run_check
from checks.matchfam import MatchAPI, MatchLong, Kernel, KernelAffine, SymbolicAlpha

META = {
    "explanation": "Same symbolic runs of the real matching code as C01, with the claims of C03 evaluated on every path: "
                   "samples at or outside the first/last fixed point and every fixed point are the identical term as the "
                   "input; interior displacements d_i satisfy d_i*w_j == d_j*w_i against the documented weights "
                   "w = 1-(2|x-c|/width)^alpha computed by an independent oracle (cross-multiplied, no division), all "
                   "d_i have one sign, and matching the result again returns the same terms. Kernel family: y and the "
                   "target integral both symbolic on every listed rational grid (the kernel is affine in them).",
    "bounds": {"quick": "as C01 quick; kernel lattice: grids of 3..8 points with gaps in {1,2,3}/2 (sampled) and uniform, "
                        "integer alpha 1..3; kernel with symbolic x N<=5",
               "thorough": "as C01 thorough; 40 gap patterns per N"},
    "outside": ["more samples than the bound", "float rounding", "smoothing after matching",
                "intervals without interior sample (excluded by the property)"],
    "assumptions": ["precondition of the property (distinct fixed points, >= 1 interior sample per interval)",
                    "symbolic-alpha family: uninterpreted pow with sign/monotonicity axioms"],
    "stubs": [],
}

if __name__ == "__main__":
    ap = argparse.ArgumentParser()
    ap.add_argument("--tier", default="quick")
    a = ap.parse_args()
    sys.exit(run_check("C03", "matching profile", [MatchAPI("C03"), MatchLong("C03"), Kernel("C03"), KernelAffine("C03"),
                                                   SymbolicAlpha("C03")], a.tier, META))
