"""Weaver states, operations and their mathematical definitions (shared by C08, C09, C20)."""
from fractions import Fraction

import numpy as np

from symx.runner import arr, increasing
from symx.core import Sym
from checks.c11 import o_bounds


# ------------------------------------------------------------------ states

class State:
    """A Weaver together with what the harness knows about it (lists of terms)."""

    def __init__(self, w, caller_x=None, caller_y=None, caller_x_terms=None, caller_y_terms=None):
        self.w = w
        self.caller_x, self.caller_y = caller_x, caller_y
        self.caller_x_terms, self.caller_y_terms = caller_x_terms, caller_y_terms
        self.other_caller_arrays = []      # (label, array the caller handed in later, its terms)

    def snap(self):
        w = self.w
        return {k: (getattr(w, k), list(getattr(w, k))) for k in
                ("x", "y", "reference_x", "reference_y", "original_x", "original_y")}


def make_state(ctx, L, kind, container="array"):
    """Arbitrary valid Weaver state of a given kind, built through the constructor and (for the non-fresh
    kinds) by installing fresh symbolic arrays for the working / reference series:
      fresh        Weaver(x, y) on the caller's arrays (working aliases them; reference/original are copies)
      tracked      working == reference (separate arrays) != original   (after some domain history)
      reshaped     working has its own length/values, reference != original (after domain history + reshape)
      reshaped-other-range  as reshaped, but working and reference span different ranges (reachable: e.g.
                   recreate_from_average followed by repeat, whose junction step differs for the two series)
      gridded      as tracked, but the working abscissae ARE an array the caller handed in
                   (interpolate(new_x=<ndarray>) keeps the caller's array, np.asarray does not copy)
    """
    from traffic_weaver import Weaver
    ox, oy = ctx.reals("ox", L), ctx.reals("oy", L)
    increasing(ctx, ox)
    if container == "list":
        cxa, cya = list(ox), list(oy)
    else:
        cxa, cya = arr(ctx, ox), arr(ctx, oy)
    w = Weaver(cxa, cya)
    st = State(w, cxa, cya, list(ox), list(oy))
    if kind == "fresh":
        return st
    px, py = ctx.reals("px", L), ctx.reals("py", L)
    increasing(ctx, px)
    w.x, w.y = arr(ctx, px), arr(ctx, py)
    w.reference_x, w.reference_y = arr(ctx, px), arr(ctx, py)
    # every other field of the object is part of the state too: the accumulated scale factors are arbitrary
    sx, sy = ctx.real("acc_x_scale"), ctx.real("acc_y_scale")
    ctx.assume(ctx.And(ctx.lt(0, sx), ctx.ne(sy, 0)))
    w.x_scale, w.y_scale = sx, sy
    if kind == "tracked":
        return st
    if kind == "gridded":
        gx, gy = ctx.reals("gx", L), ctx.reals("gy", L)
        increasing(ctx, gx)
        ctx.assume(ctx.And(ctx.eq(gx[0], px[0]), ctx.eq(gx[-1], px[-1])))
        grid = arr(ctx, gx)
        w.x, w.y = grid, arr(ctx, gy)
        st.other_caller_arrays.append(("new_x handed to interpolate", grid, list(gx)))
        return st
    Lq = L + 2
    qx, qy = ctx.reals("qx", Lq), ctx.reals("qy", Lq)
    increasing(ctx, qx)
    if kind == "reshaped":
        # the usual reshaped working series spans the same range as the reference
        ctx.assume(ctx.And(ctx.eq(qx[0], px[0]), ctx.eq(qx[-1], px[-1])))
    w.x, w.y = arr(ctx, qx), arr(ctx, qy)
    return st


def terms(a):
    return list(a)


# ------------------------------------------------------------------ definitions of the domain operations

def d_append(X, Y, periodic):
    return X + [2 * X[-1] - X[-2]], Y + [Y[0] if periodic else Y[-1]]


def d_minmax(V):
    lo = hi = V[0]
    for v in V[1:]:
        if v < lo:
            lo = v
        if v > hi:
            hi = v
    return lo, hi


def d_normalize(V, a, b):
    lo, hi = d_minmax(V)
    return [(v - lo) / (hi - lo) * (b - a) + a for v in V]


def d_repeat(X, Y, r):
    n = len(X)
    period = X[-1] - X[0] + (X[-1] - X[-2])
    return [X[i % n] + period * (i // n) for i in range(n * r)], [Y[i % n] for i in range(n * r)]


def d_truncate(X, Y, l, r, lr, rr):
    span = X[-1] - X[0]
    la = l * span + X[0] if lr else l
    ra = r * span + X[0] if rr else r
    li, ri = o_bounds(X, la, ra)
    return X[li:ri + 1], Y[li:ri + 1]


class Op:
    def __init__(self, name, kind, nargs=0, flags=None):
        self.name, self.kind, self.nargs, self.flags = name, kind, nargs, flags or {}

    def __repr__(self):
        return self.name


def domain_ops(tier):
    """(label, dict) descriptors of the ten domain operations with their flag variants"""
    ops = [
        {"op": "append_one_sample", "periodic": False}, {"op": "append_one_sample", "periodic": True},
        {"op": "shift_x"}, {"op": "shift_y"}, {"op": "scale_x"}, {"op": "scale_y"},
        {"op": "normalize_x"}, {"op": "normalize_y"},
        {"op": "repeat", "r": 2}, {"op": "repeat", "r": 3},
        {"op": "truncate_by_value", "lr": False, "rr": False}, {"op": "truncate_by_value", "lr": True, "rr": True},
        {"op": "truncate_by_index", "start": 1, "stop": None}, {"op": "truncate_by_index", "start": 0, "stop": -1},
    ]
    if tier != "quick":
        ops += [{"op": "truncate_by_value", "lr": False, "rr": True}, {"op": "truncate_by_value", "lr": True, "rr": False},
                {"op": "repeat", "r": 1}, {"op": "truncate_by_index", "start": 1, "stop": 3}]
    return ops


def apply_domain(ctx, w, d, tag=""):
    """Apply the domain operation described by `d` with fresh symbolic arguments.
    Returns f(X, Y) -> (X', Y'), the mathematical definition with the same arguments, or raises PathAbort
    through ctx.assume when the arguments are not admissible for the current state."""
    op = d["op"]
    ex = (lambda v: ctx.exact(v)) if not ctx.symbolic else (lambda v: v)
    if op == "append_one_sample":
        w.append_one_sample(make_periodic=d["periodic"])
        return lambda X, Y: d_append(X, Y, d["periodic"])
    if op in ("shift_x", "shift_y"):
        s = ctx.real(tag + "s")
        getattr(w, op)(s)
        return (lambda X, Y: ([v + s for v in X], Y)) if op == "shift_x" else (lambda X, Y: (X, [v + s for v in Y]))
    if op in ("scale_x", "scale_y"):
        c = ctx.real(tag + "c")
        ctx.assume(ctx.lt(0, c) if op == "scale_x" else ctx.ne(c, 0))
        getattr(w, op)(c)
        return (lambda X, Y: ([v * c for v in X], Y)) if op == "scale_x" else (lambda X, Y: (X, [v * c for v in Y]))
    if op in ("normalize_x", "normalize_y"):
        a, b = ctx.real(tag + "lo"), ctx.real(tag + "hi")
        ctx.assume(ctx.lt(a, b))
        # admissible only for a non-zero range (working, reference and original are all renormalised); for the
        # abscissae this excludes only a one-sample series (e.g. after truncate_by_index(1, None) of two samples)
        if True:
            for series in ((w.y, w.reference_y, w.original_y) if op == "normalize_y" else (w.x, w.reference_x, w.original_x)):
                vs = list(series)
                ctx.assume(ctx.Or(*[ctx.ne(v, vs[0]) for v in vs[1:]]) if len(vs) > 1 else False)
        getattr(w, op)(a, b)
        A, B = a, b
        if op == "normalize_x":
            return lambda X, Y: (d_normalize([ex(v) for v in X], ex(A), ex(B)) if not ctx.symbolic else d_normalize(X, A, B), Y)
        return lambda X, Y: (X, d_normalize([ex(v) for v in Y], ex(A), ex(B)) if not ctx.symbolic else d_normalize(Y, A, B))
    if op == "repeat":
        w.repeat(d["r"])
        return lambda X, Y: d_repeat(X, Y, d["r"])
    if op == "truncate_by_value":
        l, r = ctx.real(tag + "l"), ctx.real(tag + "r")
        # admissible: the requested range is non-empty for every series it is applied to
        for series in (w.x, w.reference_x):
            S = [ex(v) for v in series]
            span = S[-1] - S[0]
            la = ex(l) * span + S[0] if d["lr"] else ex(l)
            ra = ex(r) * span + S[0] if d["rr"] else ex(r)
            ctx.assume(la < ra)
            # keep at least two samples so that the result is still a series
            li, ri = o_bounds(S, la, ra)
            ctx.assume(ri - li >= 1)
        w.truncate_by_value(l, r, x_left_as_ratio=d["lr"], x_right_as_ratio=d["rr"])

        def f(X, Y):
            XX = [ex(v) for v in X]
            sel, _ = d_truncate(list(range(len(X))), Y, 0, 0, False, False) if False else (None, None)
            span = XX[-1] - XX[0]
            la = ex(l) * span + XX[0] if d["lr"] else ex(l)
            ra = ex(r) * span + XX[0] if d["rr"] else ex(r)
            li, ri = o_bounds(XX, la, ra)
            return X[li:ri + 1], Y[li:ri + 1]
        return f
    if op == "truncate_by_index":
        w.truncate_by_index(d["start"], d["stop"])
        return lambda X, Y: (X[d["start"]:d["stop"]], Y[d["start"]:d["stop"]])
    raise ValueError(op)


RESHAPES = ("recreate:PiecewiseConstantRFA", "recreate:LinearFixedRFA", "recreate:ExpAdaptiveRFA", "recreate:CubicSplineRFA",
            "integral_match", "interpolate:n", "interpolate:grid", "interpolate:constant", "interpolate:cubic",
            "smooth", "trend", "trend:normalized", "noise")


def apply_reshape(ctx, w, name, tag=""):
    from traffic_weaver import rfa
    if name.startswith("recreate:"):
        w.recreate_from_average(2, rfa_class=getattr(rfa, name.split(":")[1]))
    elif name == "integral_match":
        w.integral_match()
    elif name == "interpolate:n":
        w.interpolate(3)
    elif name == "interpolate:constant":
        w.interpolate(4, method="constant")
    elif name == "interpolate:cubic":
        w.interpolate(3, method="cubic")
    elif name == "interpolate:grid":
        mid = ctx.real(tag + "mid")
        ctx.assume(ctx.And(ctx.lt(w.x[0], mid), ctx.lt(mid, w.x[-1])))
        w.interpolate(new_x=arr(ctx, [w.x[0], mid, w.x[-1]]))
    elif name == "smooth":
        s = ctx.real(tag + "sm")
        ctx.assume(ctx.le(0, s))
        w.smooth(s)
    elif name in ("trend", "trend:normalized"):
        from checks.c14 import UF
        import math
        f = UF(ctx, tag + "tr", lambda t: math.sin(t) + 0.25 * t)
        w.trend(f, normalized=name.endswith("normalized"))
    elif name == "noise":
        if ctx.symbolic:
            w.noise(None, std=ctx.real(tag + "std"))
        else:
            st = np.random.get_state()
            np.random.seed(1234)
            try:
                w.noise(None, std=abs(ctx.real(tag + "std")))
            finally:
                np.random.set_state(st)
    else:
        raise ValueError(name)
