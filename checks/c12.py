"""C12 - repeat is a periodic extension with the original spacing."""
import argparse
import sys

import numpy as np

from symx.runner import Family, arr, increasing, run_check


def _check_repeat(ctx, X, Y, rx, ry, r, tag, info):
    L = len(X)
    ctx.claim(tag + "length", len(rx) == r * L and len(ry) == r * L, info)
    if len(rx) != r * L or len(ry) != r * L:
        return
    for i in range(r * L):
        ctx.claim(tag + "values-tiled", ctx.same(ry[i], Y[i % L]), dict(info, i=i))
    for i in range(L):
        ctx.claim(tag + "first-copy-is-input", ctx.same(rx[i], X[i]), dict(info, i=i))
    for c in range(r):
        for i in range(L - 1):
            ctx.claim(tag + "spacing-inside-copy", ctx.eq(rx[c * L + i + 1] - rx[c * L + i], X[i + 1] - X[i]),
                      dict(info, copy=c, i=i))
        if c > 0:
            ctx.claim(tag + "junction-step-is-last-step", ctx.eq(rx[c * L] - rx[c * L - 1], X[L - 1] - X[L - 2]),
                      dict(info, copy=c))
    for i in range(r * L - 1):
        ctx.claim(tag + "strictly-increasing", ctx.lt(rx[i], rx[i + 1]), dict(info, i=i))


class Repeat(Family):
    name = "process-repeat"
    doc = "process.repeat on symbolic x (strictly increasing), y; r concrete"

    def configs(self, tier):
        rs = range(1, 9) if tier == "quick" else range(1, 13)
        Ls = (2, 3, 4, 5) if tier == "quick" else (2, 3, 4, 5, 6)
        return [{"L": L, "r": r, "container": ("list" if (L + r) % 3 == 0 else "array")} for L in Ls for r in rs]

    def run(self, ctx, inst, L, r, container):
        from traffic_weaver import process
        xs, ys = ctx.reals("x", L), ctx.reals("y", L)
        increasing(ctx, xs)
        xin = list(xs) if container == "list" else arr(ctx, xs)
        yin = list(ys) if container == "list" else arr(ctx, ys)
        rx, ry = process.repeat(xin, yin, r)
        ctx.note("rx", rx)
        _check_repeat(ctx, xs, ys, rx, ry, r, "", {"L": L, "r": r})
        if container == "array":
            for i in range(L):
                ctx.claim("input-not-modified", ctx.And(ctx.same(xin[i], xs[i]), ctx.same(yin[i], ys[i])), {"i": i})
        if r == 1:
            for i in range(L):
                ctx.claim("repeat-once-is-identity", ctx.And(ctx.same(rx[i], xs[i]), ctx.same(ry[i], ys[i])), {"i": i})


class Compose(Family):
    name = "repeat-composition"
    doc = "repeat(a) then repeat(b) equals repeat(a*b), all factor pairs with a*b <= bound"

    def configs(self, tier):
        bound = 8 if tier == "quick" else 12
        return [{"L": L, "a": a, "b": b} for L in (2, 3) for a in range(1, bound + 1) for b in range(1, bound + 1)
                if a * b <= bound and (tier != "quick" or L == 3 or a * b <= 4)]

    def run(self, ctx, inst, L, a, b):
        from traffic_weaver import process
        xs, ys = ctx.reals("x", L), ctx.reals("y", L)
        increasing(ctx, xs)
        x1, y1 = process.repeat(arr(ctx, xs), arr(ctx, ys), a)
        x2, y2 = process.repeat(x1, y1, b)
        x3, y3 = process.repeat(arr(ctx, xs), arr(ctx, ys), a * b)
        ctx.claim("composition-length", len(x2) == len(x3) == a * b * L)
        for i in range(min(len(x2), len(x3))):
            ctx.claim("composition", ctx.And(ctx.eq(x2[i], x3[i]), ctx.same(y2[i], y3[i])), {"i": i, "a": a, "b": b})


class IntTyped(Family):
    name = "repeat-integer-abscissae"
    doc = "integer-typed x (concrete int64 array) with symbolic y"

    def configs(self, tier):
        return [{"x": [0, 1, 3], "r": 3}, {"x": [5, 6, 7, 10], "r": 2}, {"x": [-4, -1], "r": 4}]

    def run(self, ctx, inst, x, r):
        from traffic_weaver import process
        ys = ctx.reals("y", len(x))
        xi = np.array(x, dtype=np.int64)
        rx, ry = process.repeat(xi, arr(ctx, ys), r)
        _check_repeat(ctx, [float(v) for v in x] if not ctx.symbolic else [ctx.const(v) for v in x], ys, rx, ry, r, "", {"x": x})
        ctx.claim("input-not-modified", list(xi) == x)


class ViaWeaver(Family):
    name = "weaver-repeat"
    doc = "Weaver.repeat repeats working and reference series alike (also after a reshape) and leaves caller arrays alone"

    def configs(self, tier):
        return [{"L": L, "r": r, "reshaped": rs} for L in (2, 3) for r in ((1, 2, 3) if tier == "quick" else (1, 2, 3, 5))
                for rs in (False, True)]

    def run(self, ctx, inst, L, r, reshaped):
        from traffic_weaver import Weaver
        from traffic_weaver.rfa import PiecewiseConstantRFA
        xs, ys = ctx.reals("x", L), ctx.reals("y", L)
        increasing(ctx, xs)
        xin, yin = arr(ctx, xs), arr(ctx, ys)
        w = Weaver(xin, yin)
        if reshaped:
            w.recreate_from_average(2, rfa_class=PiecewiseConstantRFA)
        wx0, wy0 = list(w.get()[0]), list(w.get()[1])
        w.repeat(r)
        rx, ry = w.get()
        fx, fy = w.get_reference()
        _check_repeat(ctx, wx0, wy0, rx, ry, r, "working:", {"r": r})
        _check_repeat(ctx, xs, ys, fx, fy, r, "reference:", {"r": r})
        for i in range(L):
            ctx.claim("input-not-modified", ctx.And(ctx.same(xin[i], xs[i]), ctx.same(yin[i], ys[i])), {"i": i})


META = {
    "explanation": "process.repeat / Weaver.repeat executed on symbolic x (strictly increasing) and y; every element of "
                   "the result is compared with the periodic-extension definition by z3 (linear real arithmetic; most "
                   "claims close syntactically). The repetition count is concrete and enumerated.",
    "bounds": {"quick": "series of 2..5 points, r in 1..8, factor pairs with a*b <= 8, list and ndarray inputs, "
                        "integer-typed abscissae (3 concrete grids)",
               "thorough": "series of 2..6 points, r in 1..12, factor pairs with a*b <= 12"},
    "outside": ["longer series", "float rounding of the accumulated offsets"],
    "assumptions": ["x strictly increasing, at least 2 points"],
    "stubs": [],
}

if __name__ == "__main__":
    ap = argparse.ArgumentParser()
    ap.add_argument("--tier", default="quick")
    a = ap.parse_args()
    sys.exit(run_check("C12", "repeat", [Repeat(), Compose(), IntTyped(), ViaWeaver()], a.tier, META))
