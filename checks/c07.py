"""C07 - recreation commutes with changes of units and acts locally."""
import argparse
import sys
from fractions import Fraction

import numpy as np

from symx.runner import Family, arr, increasing, run_check
from symx.core import Sym
from checks.rfafam import WINDOW, shape_configs, large_configs, inputs, make, params_for, num
from checks.matchfam import gap_grids, cx

FIVE = WINDOW + ("PiecewiseConstantRFA",)
NONADAPTIVE = ("LinearFixedRFA", "ExpFixedRFA", "PiecewiseConstantRFA")


def _cfgs(tier, strategies, max_m, ns, sym_x_max_m=0, adaptive_max_m=None):
    return shape_configs(tier, strategies, sym_x_max_m=sym_x_max_m, max_m=max_m, ns=ns, adaptive_max_m=adaptive_max_m)


class AffineY(Family):
    name = "affine-values"
    doc = "y -> a*y + b (a != 0, both symbolic) before recreation == the same map applied afterwards"
    query_timeout_ms = 30000

    def configs(self, tier):
        if tier == "quick":
            return [c for c in _cfgs(tier, FIVE, 4, (2, 3), adaptive_max_m=3) if c["m"] >= 2] + large_configs(tier, FIVE, adaptive=False)
        return _cfgs(tier, FIVE, 5, (2, 3, 4), adaptive_max_m=4) + large_configs(tier, FIVE, adaptive=False)

    def run(self, ctx, inst, strategy, m, n, grid, p):
        x, y, X, ys = inputs(ctx, m, grid)
        a, b = ctx.real("a"), ctx.real("b")
        ctx.assume(ctx.ne(a, 0))
        xs1, z1 = make(ctx, strategy, x, y, n, p).rfa()
        y2 = arr(ctx, [a * v + b for v in ys])
        xs2, z2 = make(ctx, strategy, x, y2, n, p).rfa()
        for t in range(len(z1)):
            ctx.claim("values-commute", ctx.eq(z2[t], a * z1[t] + b), {"strategy": strategy, "t": t, "p": p})
            ctx.claim("abscissae-unaffected", ctx.same(xs2[t], xs1[t]), {"t": t})


class AffineX(Family):
    name = "affine-time"
    doc = "x -> c*x + d (c > 0, both symbolic) before recreation == the same map applied afterwards"
    query_timeout_ms = 30000

    def configs(self, tier):
        if tier == "quick":
            return _cfgs(tier, FIVE, 4, (2, 3), adaptive_max_m=3) + large_configs(tier, FIVE, adaptive=False)
        return _cfgs(tier, FIVE, 5, (2, 3, 4), sym_x_max_m=3, adaptive_max_m=4) + large_configs(tier, FIVE, adaptive=False)

    def run(self, ctx, inst, strategy, m, n, grid, p):
        x, y, X, ys = inputs(ctx, m, grid)
        c, d = ctx.real("c"), ctx.real("d")
        ctx.assume(ctx.lt(0, c))
        xs1, z1 = make(ctx, strategy, x, y, n, p).rfa()
        x2 = arr(ctx, [c * v + d for v in X])
        xs2, z2 = make(ctx, strategy, x2, y, n, p).rfa()
        for t in range(len(z1)):
            ctx.claim("abscissae-commute", ctx.eq(xs2[t], c * xs1[t] + d), {"strategy": strategy, "t": t})
            ctx.claim("values-unaffected", ctx.eq(z2[t], z1[t]), {"strategy": strategy, "t": t, "p": p})


class Locality(Family):
    name = "locality"
    doc = "changing one average changes values only in that interval and 1 (fixed) / 2 (adaptive) neighbours per side"
    query_timeout_ms = 30000
    split_depth = 16   # adaptive runs have thousands of paths: subtrees below 16 decisions become separate tasks

    def configs(self, tier):
        out = []
        for s in FIVE:
            adaptive = "Adaptive" in s
            ms = (5,) if tier == "quick" else (5, 6)
            if adaptive:
                # two independent adaptive runs: m = 6 does not finish within the budget (m = 4 leaves nothing to check)
                ms = (5,)
                if tier == "quick" and s.startswith("Exp"):
                    continue       # quick: LinearAdaptiveRFA only (same window routine); ExpAdaptiveRFA in the thorough tier
            for m in ms:
                for n in ((2,) if adaptive else (2, 3)):
                    ps = params_for(s, tier)
                    ps = [q for q in ps if "a" not in q or int(q["a"]) <= n][: ((1 if adaptive else 2) if tier == "quick" else (1 if adaptive else 4))]
                    for p in ps:
                        js = (0, m - 1) if adaptive else (0, 2, m - 1)
                        if adaptive and tier == "quick":
                            js = (0,)     # the other end: thorough tier
                        for j in js:
                            grid = [str(g) for g in gap_grids(m, tier, limit=1)[2]]
                            out.append({"strategy": s, "m": m, "n": n, "grid": grid, "p": p, "j": j})
        # adaptive strategies with a window of 3 samples (with a = 2 both sides truncate to 1 and window effects of far
        # averages are invisible): one configuration in quick, both strategies and both ends in thorough
        for s in (("LinearAdaptiveRFA",) if tier == "quick" else ("LinearAdaptiveRFA", "ExpAdaptiveRFA")):
            for j in ((0,) if (tier == "quick" or s.startswith("Exp")) else (0, 4)):
                p = {"alpha": "1"} if s.startswith("Linear") else {"alpha": "1", "beta": "1/2", "exp": "2"}
                out.append({"strategy": s, "m": 5, "n": 3, "grid": ["0", "1", "2", "3", "4"], "p": p, "j": j})
        # long series for the strategies without value-dependent branches: a dependence on a far-away average shows
        for cfg in large_configs(tier, FIVE, adaptive=False):
            for j in (0, cfg["m"] // 2, cfg["m"] - 1):
                out.append(dict(cfg, j=j))
        return out

    def run(self, ctx, inst, strategy, m, n, grid, p, j):
        x, y, X, ys = inputs(ctx, m, grid)
        v = ctx.real("v")
        xs1, z1 = make(ctx, strategy, x, y, n, p).rfa()
        ys2 = list(ys)
        ys2[j] = v
        xs2, z2 = make(ctx, strategy, x, arr(ctx, ys2), n, p).rfa()
        reach = 2 if "Adaptive" in strategy else (0 if strategy == "PiecewiseConstantRFA" else 1)
        checked = 0
        for k in range(m - 1):
            if abs(k - j) <= reach:
                continue
            for i in range(n):
                t = k * n + i
                # the border sample t = k*n also belongs to the transition out of interval k-1
                if i == 0 and abs(k - 1 - j) <= reach:
                    continue
                checked += 1
                ctx.claim("untouched-outside-neighbourhood", ctx.eq(z2[t], z1[t]), {"strategy": strategy, "t": t, "j": j})
        ctx.claim("locality-has-something-to-check", checked > 0 or reach == 2 and m <= 5 and j not in (0, m - 1))


class Linearity(Family):
    name = "linearity-nonadaptive"
    doc = "non-adaptive strategies: R(y+y') = R(y)+R(y'), R(y+c) = R(y)+c, and y >= 0 pointwise -> R(y) >= 0"
    query_timeout_ms = 30000

    def configs(self, tier):
        if tier == "quick":
            return _cfgs(tier, NONADAPTIVE, 4, (2, 3, 4)) + large_configs(tier, NONADAPTIVE)
        return _cfgs(tier, NONADAPTIVE, 6, (2, 3, 4, 6), sym_x_max_m=3) + large_configs(tier, NONADAPTIVE)

    def run(self, ctx, inst, strategy, m, n, grid, p):
        x, y, X, ys = inputs(ctx, m, grid)
        ws = ctx.reals("w", m)
        c = ctx.real("c")
        _, r1 = make(ctx, strategy, x, y, n, p).rfa()
        _, r2 = make(ctx, strategy, x, arr(ctx, ws), n, p).rfa()
        _, r12 = make(ctx, strategy, x, arr(ctx, [a + b for a, b in zip(ys, ws)]), n, p).rfa()
        _, rc = make(ctx, strategy, x, arr(ctx, [a + c for a in ys]), n, p).rfa()
        nonneg = ctx.And(*[ctx.le(0, v) for v in ws])
        for t in range(len(r1)):
            ctx.claim("additive", ctx.eq(r12[t], r1[t] + r2[t]), {"strategy": strategy, "t": t, "p": p})
            ctx.claim("weights-sum-to-one", ctx.eq(rc[t], r1[t] + c), {"strategy": strategy, "t": t, "p": p})
            ctx.claim("non-negative-weights", ctx.Implies(nonneg, ctx.le(0, r2[t])), {"strategy": strategy, "t": t, "p": p})


META = {
    "budget_s": {"quick": 300, "thorough": 2400},
    "explanation": "Two (or four) executions of the real strategy inside ONE symbolic run: the map parameters (a, b), "
                   "(c, d), the changed average and the second series are solver variables, so 'commutes for every "
                   "real map' is literally the quantifier z3 decides. In exact arithmetic the commutation also holds "
                   "for the adaptive strategies for all maps (window sizes depend on ratios of absolute jumps), which "
                   "implies the property's weaker statement about exactly representable maps; rounding is outside.",
    "bounds": {"quick": "five strategies (spline excluded), m in 2..4 (adaptive <=3 for the maps, 5 for locality with "
                        "n=2), n in {2,3}; concrete gap grids for x (symbolic c,d keep it linear)",
               "thorough": "m in 2..5/6, n in {2,3,4,(6)}, x symbolic for m<=3 in affine-time and linearity"},
    "outside": ["CubicSplineRFA (its values come from SciPy; the contract stub returns unconstrained reals between the "
                "knots, so commutation/linearity of the spline itself is not decidable here)",
                "float rounding for non-representable maps", "long series"],
    "assumptions": ["x strictly increasing"],
    "stubs": [],
}

if __name__ == "__main__":
    ap = argparse.ArgumentParser()
    ap.add_argument("--tier", default="quick")
    a = ap.parse_args()
    sys.exit(run_check("C07", "units and locality", [AffineY(), AffineX(), Locality(), Linearity()], a.tier, META))
