"""C08 - reference series tracks domain transformations through any history."""
import argparse
import itertools
import sys
from fractions import Fraction

import numpy as np

from symx.runner import Family, arr, increasing, run_check
from symx.core import Sym
from checks.weaverfam import make_state, domain_ops, apply_domain, apply_reshape, RESHAPES, terms
from checks.matchfam import o_integral

KNOWN_FIELDS = {"x", "y", "original_x", "original_y", "reference_x", "reference_y", "x_scale", "y_scale"}


def seq_equal(ctx, A, B):
    if len(A) != len(B):
        return False
    return ctx.And(*[ctx.eq(a, b) for a, b in zip(A, B)])


class DomainStep(Family):
    name = "inductive-step-domain-op"
    doc = "from an ARBITRARY state with working == reference: one domain operation with symbolic arguments"
    query_timeout_ms = 30000

    def configs(self, tier):
        Ls = (3, 4) if tier == "quick" else (3, 4, 5, 6)
        # min/max over L symbolic values forks over all orderings: normalisation is bounded at L <= 5
        ops = list(domain_ops(tier))
        if tier == "quick":
            # one bound a ratio, the other an absolute value: cheap in a single step (left out of the quick histories only)
            ops += [{"op": "truncate_by_value", "lr": False, "rr": True}, {"op": "truncate_by_value", "lr": True, "rr": False}]
        return [{"L": L, "d": d} for L in Ls for d in ops if not (L > 5 and d["op"].startswith("normalize"))]

    def run(self, ctx, inst, L, d):
        st = make_state(ctx, L, "tracked")
        w = st.w
        X0, Y0 = terms(w.x), terms(w.y)
        OX, OY = terms(w.original_x), terms(w.original_y)
        ctx.claim("state-has-only-known-fields", set(vars(w)) == KNOWN_FIELDS, {"fields": sorted(vars(w))})
        f = apply_domain(ctx, w, d)
        EX, EY = f(X0, Y0)
        info = {"op": d}
        ctx.note("wx", w.x)
        ctx.claim("working=definition(old working)", ctx.And(seq_equal(ctx, terms(w.x), EX), seq_equal(ctx, terms(w.y), EY)), info)
        ctx.claim("reference=definition(old reference)",
                  ctx.And(seq_equal(ctx, terms(w.reference_x), EX), seq_equal(ctx, terms(w.reference_y), EY)), info)
        ctx.claim("working-and-reference-stay-separate-arrays",
                  not np.shares_memory(w.x, w.reference_x) and not np.shares_memory(w.y, w.reference_y), info)
        if d["op"].startswith("normalize"):
            pass    # by design the original is renormalised as well
        else:
            ctx.claim("original-unchanged", ctx.And(seq_equal(ctx, terms(w.original_x), OX), seq_equal(ctx, terms(w.original_y), OY)), info)


class ReshapeStep(Family):
    name = "inductive-step-reshape-op"
    doc = "from an arbitrary state: a reshaping operation never alters the reference (values and aliasing)"
    query_timeout_ms = 30000
    split_depth = 14

    def configs(self, tier):
        kinds = ("tracked", "reshaped")
        Ls = (4,) if tier == "quick" else (4, 5)
        out = []
        for L in Ls:
            for k in kinds:
                for r in RESHAPES:
                    if r in ("smooth", "interpolate:cubic") and L + (2 if k == "reshaped" else 0) < 4:
                        continue
                    if r == "recreate:ExpAdaptiveRFA" and (k == "reshaped" or L > 4):
                        continue
                    out.append({"L": L, "kind": k, "reshape": r})
        return out

    def run(self, ctx, inst, L, kind, reshape):
        st = make_state(ctx, L, kind)
        w = st.w
        RX, RY = terms(w.reference_x), terms(w.reference_y)
        rx_obj, ry_obj = w.reference_x, w.reference_y
        apply_reshape(ctx, w, reshape)
        info = {"reshape": reshape, "kind": kind}
        ctx.claim("reference-unchanged", ctx.And(seq_equal(ctx, terms(w.reference_x), RX), seq_equal(ctx, terms(w.reference_y), RY)), info)
        ctx.claim("reference-arrays-not-written-through", ctx.And(seq_equal(ctx, terms(rx_obj), RX), seq_equal(ctx, terms(ry_obj), RY)), info)
        ok = True
        for a in (w.x, w.y):
            if isinstance(a, np.ndarray):
                ok = ok and not np.shares_memory(a, w.reference_x) and not np.shares_memory(a, w.reference_y)
        ctx.claim("reference-not-aliased-to-working", ok, info)


class Histories(Family):
    name = "bounded-histories-then-pipeline"
    doc = "all sequences of <= k domain operations (symbolic arguments) from a fresh Weaver, then recreate + match"
    query_timeout_ms = 30000
    split_depth = 16

    def configs(self, tier):
        ops = domain_ops("quick")
        out = []
        maxlen = 2 if tier == "quick" else 4
        L = 3
        for k in range(0, maxlen + 1):
            for seq in itertools.product(range(len(ops)), repeat=k):
                if k == 4 and (sum(seq) + 3 * seq[0]) % 17:      # thorough: a seventeenth of the length-4 sequences
                    continue
                names = [ops[i] for i in seq]
                if sum(1 for d in names if d["op"] == "repeat") > 1:
                    continue
                if sum(1 for d in names if d["op"] in ("repeat", "append_one_sample")) > 2:
                    continue
                out.append({"L": L, "seq": names, "strategy": ("LinearFixedRFA", "ExpFixedRFA", "PiecewiseConstantRFA")[len(out) % 3],
                            "trule": ("trapezoid", "rectangle")[len(out) % 2]})
        return out

    def run(self, ctx, inst, L, seq, strategy, trule):
        from traffic_weaver import rfa
        st = make_state(ctx, L, "fresh")
        w = st.w
        X, Y = list(st.caller_x_terms), list(st.caller_y_terms)
        for i, d in enumerate(seq):
            if len(X) < 2:
                # truncation may leave a single sample: no interval, no period, zero range - the remaining
                # operations have no admissible arguments; the claims below still cover the prefix
                break
            f = apply_domain(ctx, w, d, tag="h%d_" % i)
            X, Y = f(X, Y)
        info = {"seq": [d["op"] for d in seq]}
        ctx.claim("history:working=T(original)", ctx.And(seq_equal(ctx, terms(w.x), X), seq_equal(ctx, terms(w.y), Y)), info)
        ctx.claim("history:reference=T(original)", ctx.And(seq_equal(ctx, terms(w.reference_x), X), seq_equal(ctx, terms(w.reference_y), Y)), info)
        if len(X) < 2:
            return
        n = 2
        w.recreate_from_average(n, rfa_class=getattr(rfa, strategy)).integral_match(target_function_integral_method=trule)
        rx, ry = terms(w.x), terms(w.y)
        ctx.claim("pipeline:length", len(rx) == (len(X) - 1) * n + 1, info)
        if len(rx) != (len(X) - 1) * n + 1:
            return
        XE = [ctx.exact(v) for v in X] if not ctx.symbolic else X
        for k in range(len(X) - 1):
            ctx.claim("pipeline:transformed-averages", ctx.eq(o_integral(rx, ry, trule, k * n, (k + 1) * n), Y[k] * (X[k + 1] - X[k])),
                      dict(info, k=k))


class Commute(Family):
    name = "shift-scale-commute-with-pipeline"
    doc = "shift/scale before recreate + match == the same shift/scale applied afterwards"
    query_timeout_ms = 30000

    def configs(self, tier):
        out = []
        for L in ((3,) if tier == "quick" else (3, 4)):
            for op in ("shift_x", "shift_y", "scale_x", "scale_y"):
                for s in ("LinearFixedRFA", "ExpFixedRFA", "LinearAdaptiveRFA") if tier != "quick" else ("LinearFixedRFA", "ExpFixedRFA"):
                    for trule in ("trapezoid", "rectangle"):
                        out.append({"L": L, "op": op, "strategy": s, "trule": trule})
        return out

    def run(self, ctx, inst, L, op, strategy, trule):
        from traffic_weaver import Weaver, rfa
        xs, ys = ctx.reals("x", L), ctx.reals("y", L)
        increasing(ctx, xs)
        c = ctx.real("c")
        if op == "scale_x":
            ctx.assume(ctx.lt(0, c))
        if op == "scale_y":
            ctx.assume(ctx.ne(c, 0))
        S = getattr(rfa, strategy)
        a = Weaver(arr(ctx, xs), arr(ctx, ys))
        getattr(a, op)(c)
        a.recreate_from_average(2, rfa_class=S).integral_match(target_function_integral_method=trule)
        b = Weaver(arr(ctx, xs), arr(ctx, ys))
        b.recreate_from_average(2, rfa_class=S).integral_match(target_function_integral_method=trule)
        getattr(b, op)(c)
        ctx.claim("commute:length", len(a.x) == len(b.x))
        for i in range(min(len(a.x), len(b.x))):
            ctx.claim("commute", ctx.And(ctx.eq(a.x[i], b.x[i]), ctx.eq(a.y[i], b.y[i])), {"op": op, "i": i, "strategy": strategy})


META = {
    "explanation": "Histories are handled by ONE INDUCTIVE STEP per operation from an arbitrary symbolic state instead of by "
                   "sampling sequences: the Weaver's fields (working, reference, original series of symbolic values, "
                   "accumulated scale factors) are installed directly as fresh symbolic arrays satisfying the invariant "
                   "'working == reference element-wise, separate arrays', the real operation runs with symbolic "
                   "arguments, and z3 decides that working and reference both equal the mathematical definition of the "
                   "operation applied to the old series, still do not share memory, and that the original is untouched "
                   "(normalise excepted by design). Reshaping operations: from arbitrary tracked / reshaped states the "
                   "reference keeps its terms and is not aliased to anything written. Because the step starts from an "
                   "arbitrary state it covers histories of ANY length whose intermediate sizes stay within the bound. "
                   "On top, all operation sequences up to the stated length from a fresh Weaver, followed by recreate + "
                   "match, must reproduce the transformed averages; shift/scale commute with the pipeline.",
    "bounds": {"quick": "states of 3..4 points (reshaped working series +2), 14 operation variants + the two mixed ratio/value truncations in the single step; histories: all sequences of length <= 2 over "
                        "14 operation variants on 3 points, then recreate(n=2)+match with 3 strategies x 2 rules",
               "thorough": "states of 3..6 points; ALL histories up to length 3 over the 14-operation alphabet (symbolic arguments); a seventeenth of the length-4 histories; normalisation from states of <= 5 points"},
    "outside": ["series longer than the bound inside a step", "float rounding",
                "fields added to Weaver in the future are reported by the claim 'state-has-only-known-fields'"],
    "assumptions": ["x strictly increasing; scale_x > 0, scale_y != 0; normalise on non-constant values with lo < hi; "
                    "truncation ranges non-empty and keeping >= 2 samples (the operations' documented preconditions)",
                    "stubs for splines and noise as in C13/C15/C16"],
    "stubs": ["scipy splines (contract stubs)", "numpy.random.normal (recording stub)"],
}

if __name__ == "__main__":
    ap = argparse.ArgumentParser()
    ap.add_argument("--tier", default="quick")
    a = ap.parse_args()
    sys.exit(run_check("C08", "reference tracking", [DomainStep(), ReshapeStep(), Histories(), Commute()], a.tier, META))
