"""C17 - array helpers, interval view and block averaging keep their contracts."""
import argparse
import sys

import numpy as np

from symx.runner import Family, arr, increasing, run_check
from symx.core import Sym


def is_nan(v):
    try:
        return not isinstance(v, Sym) and float(v) != float(v)
    except Exception:
        return False


def sizes(tier, lo=1):
    if tier == "quick":
        return [(L, n) for L in list(range(lo, 21)) + [25, 32, 50] for n in list(range(1, 9)) + [12, 16]
                if L <= 20 or n in (1, 2, 3, 7, 16)]
    return [(L, n) for L in range(lo, 51) for n in range(1, 17)]


class Oversample(Family):
    name = "oversample"

    def configs(self, tier):
        return [{"L": L, "n": n, "kind": k} for (L, n) in sizes(tier) for k in ("linspace", "piecewise")
                if L * n <= (400 if tier == "quick" else 800)]

    def run(self, ctx, inst, L, n, kind):
        from traffic_weaver import sorted_array_utils as sau
        vs = ctx.reals("v", L)
        a = arr(ctx, vs)
        out = sau.oversample_linspace(a, n) if kind == "linspace" else sau.oversample_piecewise_constant(a, n)
        step = n if n >= 2 else 1
        exp_len = (L - 1) * step + 1
        ctx.claim("oversample:length", len(out) == exp_len, {"L": L, "n": n, "kind": kind})
        if len(out) != exp_len:
            return
        for k in range(L):
            ctx.claim("oversample:every-nth-is-original", ctx.same(out[k * step], vs[k]), {"k": k})
        if n >= 2:
            for k in range(L - 1):
                for j in range(1, n):
                    e = vs[k] + (vs[k + 1] - vs[k]) * j / n if kind == "linspace" else vs[k]
                    ctx.claim("oversample:gap-fill", ctx.eq(out[k * n + j], e), {"k": k, "j": j, "kind": kind})


class Extend(Family):
    name = "extend"

    def configs(self, tier):
        out = []
        for (L, n) in sizes(tier, lo=2):
            if n >= L or L * n > (150 if tier == "quick" else 800):
                continue
            for d in ("both", "left", "right"):
                for kind in ("linspace", "constant", "linspace-explicit"):
                    if tier == "quick" and (L + n + len(d)) % 3 == 0 and kind != "linspace":
                        continue
                    out.append({"L": L, "n": n, "direction": d, "kind": kind})
        return out

    def run(self, ctx, inst, L, n, direction, kind):
        from traffic_weaver import sorted_array_utils as sau
        vs = ctx.reals("v", L)
        a = arr(ctx, vs)
        ls = rs = None
        if kind == "constant":
            out = sau.extend_constant(a, n, direction)
        elif kind == "linspace":
            out = sau.extend_linspace(a, n, direction)
        else:
            ls, rs = ctx.real("lstart"), ctx.real("rstop")
            out = sau.extend_linspace(a, n, direction, lstart=ls, rstop=rs)
        nl = n if direction in ("both", "left") else 0
        nr = n if direction in ("both", "right") else 0
        info = {"L": L, "n": n, "direction": direction, "kind": kind}
        ctx.claim("extend:length", len(out) == L + nl + nr, info)
        if len(out) != L + nl + nr:
            return
        for i in range(L):
            ctx.claim("extend:original-in-the-middle", ctx.same(out[nl + i], vs[i]), dict(info, i=i))
        for i in range(nl):
            if kind == "constant":
                e = vs[0]
            else:
                start = ls if ls is not None else 2 * vs[0] - vs[n]
                e = start + (vs[0] - start) * i / n
            ctx.claim("extend:left-continuation", ctx.eq(out[i], e), dict(info, i=i))
        for i in range(nr):
            if kind == "constant":
                e = vs[L - 1]
            else:
                stop = rs if rs is not None else 2 * vs[L - 1] - vs[L - 1 - n]
                e = vs[L - 1] + (stop - vs[L - 1]) * (i + 1) / n
            ctx.claim("extend:right-continuation", ctx.eq(out[nl + L + i], e), dict(info, i=i))


class AppendIntegrals(Family):
    name = "append-and-integrals"

    def configs(self, tier):
        return [{"L": L} for L in ((2, 3, 5, 8) if tier == "quick" else (2, 3, 4, 5, 8, 13, 21, 50))]

    def run(self, ctx, inst, L):
        from traffic_weaver import sorted_array_utils as sau
        xs, ys = ctx.reals("x", L), ctx.reals("y", L)
        for periodic in (False, True):
            rx, ry = sau.append_one_sample(arr(ctx, xs), arr(ctx, ys), make_periodic=periodic)
            ctx.claim("append:length", len(rx) == L + 1 and len(ry) == L + 1)
            ctx.claim("append:x-continues-by-last-step", ctx.eq(rx[L] - xs[L - 1], xs[L - 1] - xs[L - 2]))
            ctx.claim("append:y", ctx.same(ry[L], ys[0] if periodic else ys[L - 1]), {"periodic": periodic})
            for i in range(L):
                ctx.claim("append:prefix-unchanged", ctx.And(ctx.same(rx[i], xs[i]), ctx.same(ry[i], ys[i])), {"i": i})
        x, y = arr(ctx, xs), arr(ctx, ys)
        rect = sau.integral(x, y, "rectangle")
        trap = sau.integral(x, y, "trapezoid")
        ctx.claim("integral:length", len(rect) == L - 1 and len(trap) == L - 1)
        for i in range(L - 1):
            ctx.claim("integral:rectangle", ctx.eq(rect[i], ys[i] * (xs[i + 1] - xs[i])), {"i": i})
            ctx.claim("integral:trapezoid", ctx.eq(trap[i], (ys[i] + ys[i + 1]) * (xs[i + 1] - xs[i]) / 2), {"i": i})
        # range sums
        if L >= 3:
            idx = [0, L // 2, L - 1] if L // 2 not in (0, L - 1) else [0, L - 1]
            s = sau.sum_over_indices(y, idx)
            ctx.claim("sum_over_indices:length", len(s) == len(idx) - 1)
            for k in range(len(idx) - 1):
                tot = 0
                for i in range(idx[k], idx[k + 1]):
                    tot = tot + ys[i]
                ctx.claim("sum_over_indices", ctx.eq(s[k], tot), {"k": k})


class IntervalView(Family):
    name = "interval-view"

    def configs(self, tier):
        return [{"L": L, "n": n} for (L, n) in sizes(tier) if L * n <= (300 if tier == "quick" else 800)]

    def run(self, ctx, inst, L, n):
        from traffic_weaver.interval import IntervalArray
        from traffic_weaver import process, sorted_array_utils as sau
        vs = ctx.reals("v", L)
        ia = IntervalArray(arr(ctx, vs), n)
        rows = -(-L // n)
        # reads
        for i in range(rows):
            for j in range(n):
                f = i * n + j
                if f < L:
                    ctx.claim("getitem[i,j]=flat[i*n+j]", ctx.same(ia[i, j], vs[f]), {"i": i, "j": j})
        for f in range(L):
            ctx.claim("getitem[int]=flat", ctx.same(ia[f], vs[f]), {"f": f})
        # negative element index: [i, -j] is the flat element i*n - j (used by the strategies to look into the previous interval)
        for i in range(1, rows):
            for j in range(1, min(n, 3) + 1):
                if i * n - j < L:
                    ctx.claim("getitem[i,-j]=flat[i*n-j]", ctx.same(ia[i, -j], vs[i * n - j]), {"i": i, "j": -j})
        ctx.claim("len", len(ia) == L and ia.nr_of_full_intervals() == L // n)
        # 2-D layout
        t = ia.to_2d_array()
        ctx.claim("to_2d_array:shape", t.shape == (rows, n), {"shape": t.shape})
        if t.shape == (rows, n):
            for i in range(rows):
                for j in range(n):
                    f = i * n + j
                    ctx.claim("to_2d_array:row-major-with-nan-padding",
                              ctx.same(t[i, j], vs[f]) if f < L else is_nan(t[i, j]), {"i": i, "j": j})
        c = ia.to_2d_array_closed_intervals()
        ctx.claim("closed-intervals:shape", c.shape == (rows - 1, n + 1), {"shape": c.shape})
        if c.shape == (rows - 1, n + 1):
            for i in range(rows - 1):
                for j in range(n + 1):
                    f = i * n + j
                    ctx.claim("closed-intervals:row-ends-with-next-first",
                              ctx.same(c[i, j], vs[f]) if f < L else is_nan(c[i, j]), {"i": i, "j": j})
        # the last, possibly partial row kept: it is closed with NaN (there is no next row)
        ck = ia.to_2d_array_closed_intervals(drop_last=False)
        ctx.claim("closed-intervals(keep-last):shape", ck.shape == (rows, n + 1), {"shape": ck.shape})
        if ck.shape == (rows, n + 1):
            for i in range(rows):
                for j in range(n + 1):
                    f = i * n + j
                    inside = f < L and (j < n or i < rows - 1)
                    ctx.claim("closed-intervals(keep-last):row-ends-with-next-first-or-nan",
                              ctx.same(ck[i, j], vs[f]) if inside else is_nan(ck[i, j]), {"i": i, "j": j})
        # writes go to the same flat position and nowhere else
        w = ctx.real("w")
        ia2 = IntervalArray(arr(ctx, vs), n)
        wi, wj = (rows - 1) // 2, min(n - 1, (L - 1) - ((rows - 1) // 2) * n)
        ia2[wi, wj] = w
        for f in range(L):
            ctx.claim("setitem[i,j]", ctx.same(ia2.array[f], w if f == wi * n + wj else vs[f]), {"f": f})
        ia3 = IntervalArray(arr(ctx, vs), n)
        ia3[L - 1] = w
        for f in range(L):
            ctx.claim("setitem[int]", ctx.same(ia3.array[f], w if f == L - 1 else vs[f]), {"f": f})
        ctx.claim("read-back-after-write", ctx.And(ctx.same(ia2[wi, wj], w), ctx.same(ia3[L - 1], w)))
        # block averaging
        xs = ctx.reals("x", L)
        ax, ay = process.average(arr(ctx, xs), arr(ctx, vs), n)
        ctx.claim("average:length", len(ax) == rows and len(ay) == rows)
        if len(ax) == rows and len(ay) == rows:
            for i in range(rows):
                cnt = min(n, L - i * n)
                tot = 0
                for j in range(cnt):
                    tot = tot + vs[i * n + j]
                ctx.claim("average:row-mean-ignoring-padding", ctx.eq(ay[i], tot / cnt), {"i": i})
                ctx.claim("average:row-first-abscissa", ctx.same(ax[i], xs[i * n]), {"i": i})


class RoundTrip(Family):
    name = "average-of-oversampling"

    def configs(self, tier):
        return [{"L": L, "n": n} for (L, n) in sizes(tier, lo=2) if n >= 2 and L * n <= 200]

    def run(self, ctx, inst, L, n):
        from traffic_weaver import process, sorted_array_utils as sau
        xs, ys = ctx.reals("x", L), ctx.reals("y", L)
        ox = sau.oversample_linspace(arr(ctx, xs), n)
        oy = sau.oversample_piecewise_constant(arr(ctx, ys), n)
        ax, ay = process.average(ox, oy, n)
        ctx.claim("roundtrip:length", len(ax) == L and len(ay) == L)
        if len(ax) == L and len(ay) == L:
            for i in range(L):
                ctx.claim("roundtrip:average(oversample)=input", ctx.And(ctx.eq(ay[i], ys[i]), ctx.same(ax[i], xs[i])), {"i": i})
        # IntervalArray.oversample_* keep the interval structure
        from traffic_weaver.interval import IntervalArray
        ia = IntervalArray(arr(ctx, ys), 2).oversample_piecewise(n)
        ctx.claim("interval-oversample:n", ia.n == 2 * n and len(ia) == (L - 1) * n + 1)
        il = IntervalArray(arr(ctx, ys), 2).oversample_linspace(n)
        ctx.claim("interval-oversample:n", il.n == 2 * n and len(il) == (L - 1) * n + 1)


META = {
    "explanation": "The helpers have no value-dependent branches, so each shape is ONE symbolic path on which every output "
                   "element is an exact linear term over the input symbols; each is compared with the documented "
                   "contract (mostly closed syntactically, otherwise by a linear z3 query). NaN padding is checked as "
                   "a concrete float NaN at exactly the padded positions.",
    "bounds": {"quick": "arrays of 1..20 and {25,32,50} elements, n in 1..8 and {12,16}, all directions, default and "
                        "symbolic explicit end values, interval sizes that do and do not divide the length",
               "thorough": "the property's full range: arrays of 1..50 elements x n in 1..16"},
    "outside": ["float rounding of linspace", "n larger than the array for extend_* (documented precondition)"],
    "assumptions": [],
    "stubs": [],
}

if __name__ == "__main__":
    ap = argparse.ArgumentParser()
    ap.add_argument("--tier", default="quick")
    a = ap.parse_args()
    sys.exit(run_check("C17", "helpers", [Oversample(), Extend(), AppendIntegrals(), IntervalView(), RoundTrip()],
                       a.tier, META))
