"""C16 - smoothing and the spline function respect the smoothing condition."""
import argparse
import sys

import numpy as np

from symx.runner import Family, arr, increasing, run_check
from symx.core import Sym


def variance(vals):
    n = len(vals)
    mean = 0
    for v in vals:
        mean = mean + v
    mean = mean / n
    tot = 0
    for v in vals:
        tot = tot + (v - mean) * (v - mean)
    return tot / n


class Smooth(Family):
    name = "smooth-and-to-function"
    doc = "what reaches splrep, default s, evaluation grid, smoothing condition under the FITPACK contract"
    differential = False
    query_timeout_ms = 30000

    def configs(self, tier):
        Ls = (5, 6) if tier == "quick" else (5, 6, 7, 8)
        return [{"L": L, "mode": m} for L in Ls for m in ("smooth-s", "smooth-0", "smooth-default", "process-default",
                                                          "to_function-default", "to_function-s")]

    def run(self, ctx, inst, L, mode):
        from traffic_weaver import Weaver, process
        xs, ys = ctx.reals("x", L), ctx.reals("y", L)
        increasing(ctx, xs)
        same = lambda A, B: len(A) == len(B) and all(ctx.same(a, b) is True for a, b in zip(list(A), list(B)))
        if not ctx.symbolic:
            self.replay(ctx, L, mode, xs, ys)
            return
        s = None
        if mode in ("smooth-s", "to_function-s"):
            s = ctx.real("s")
            ctx.assume(ctx.lt(0, s))
        elif mode == "smooth-0":
            s = ctx.const(0)
        w = Weaver(arr(ctx, xs), arr(ctx, ys))
        if mode.startswith("smooth"):
            w.smooth(s)
            gx, gy = w.get()
            calls = inst.calls("splrep")
            ev = inst.calls("BSpline.__call__")
            ctx.claim("splrep-called-once", len(calls) == 1)
            c = calls[0]
            ctx.claim("splrep-receives-(x,y)", same(c["x"], xs) and same(c["y"], ys))
            ctx.claim("default-degree", c["k"] == 3 and c["w"] is None and c["t"] is None and not c["per"])
            ctx.claim("evaluated-at-existing-x", len(ev) == 1 and same(ev[0]["at"], xs))
            ctx.claim("x-and-length-unchanged", same(gx, xs) and len(gy) == L)
            if mode == "smooth-default":
                ctx.claim("default-s=len(y)*var(y)", ctx.eq(c["s"], L * variance(ys)))
            else:
                ctx.claim("s-forwarded", ctx.same(c["s"], s) is True)
            if mode == "smooth-0":
                for i in range(L):
                    ctx.claim("s=0-is-identity(contract)", ctx.eq(gy[i], ys[i]), {"i": i})
            else:
                tot = 0
                for i in range(L):
                    tot = tot + (gy[i] - ys[i]) * (gy[i] - ys[i])
                bound = s if mode == "smooth-s" else L * variance(ys)
                ctx.claim("summed-squared-deviation<=s(contract)", ctx.le(tot, bound))
        elif mode == "process-default":
            f = process.spline_smooth(arr(ctx, xs), arr(ctx, ys))
            c = inst.calls("splrep")[0]
            ctx.claim("default-s=len(y)*var(y)", ctx.eq(c["s"], L * variance(ys)))
            ctx.claim("splrep-receives-(x,y)", same(c["x"], xs) and same(c["y"], ys))
        else:
            f = w.to_function() if mode == "to_function-default" else w.to_function(s)
            c = inst.calls("splrep")[0]
            ctx.claim("splrep-receives-(x,y)", same(c["x"], xs) and same(c["y"], ys))
            if mode == "to_function-default":
                ctx.claim("to_function-default-s=0", ctx.same(c["s"], 0) is True)
                vals = f(arr(ctx, xs))
                for i in range(L):
                    ctx.claim("to_function-passes-through-samples(contract)", ctx.eq(vals[i], ys[i]), {"i": i})
            else:
                ctx.claim("s-forwarded", ctx.same(c["s"], s) is True)
            gx, gy = w.get()
            ctx.claim("to_function-leaves-series-alone", same(gx, xs) and same(gy, ys))

    def replay(self, ctx, L, mode, xs, ys):
        """float64 replay against the real SciPy: the observable statements of the property"""
        from traffic_weaver import Weaver
        import warnings
        x, y = np.array([float(v) for v in xs]), np.array([float(v) for v in ys])
        s = ctx.real("s") if mode in ("smooth-s", "to_function-s") else None
        w = Weaver(x.copy(), y.copy())
        with warnings.catch_warnings():
            warnings.simplefilter("error")
            try:
                if mode == "smooth-s":
                    gy = w.smooth(s).get()[1]
                    ctx.claim("summed-squared-deviation<=s(contract)", float(np.sum((gy - y) ** 2)) <= s * 1.002 + 1e-9)
                elif mode == "smooth-0":
                    gy = w.smooth(0).get()[1]
                    ctx.claim("s=0-is-identity(contract)", bool(np.allclose(gy, y, atol=1e-7 * (1 + np.max(np.abs(y))))))
                elif mode in ("smooth-default", "process-default"):
                    gy = w.smooth(None).get()[1]
                    ctx.claim("summed-squared-deviation<=s(contract)",
                              float(np.sum((gy - y) ** 2)) <= len(y) * np.var(y) * 1.002 + 1e-9)
                elif mode == "to_function-default":
                    v = w.to_function()(x)
                    ctx.claim("to_function-passes-through-samples(contract)", bool(np.allclose(v, y, atol=1e-7 * (1 + np.max(np.abs(y))))))
                else:
                    w.to_function(s)
            except RuntimeWarning:
                return      # FITPACK reports non-convergence: discarded, not judged (as the property says)
        ctx.claim("x-and-length-unchanged", len(w.get()[0]) == L and bool(np.all(w.get()[0] == x)))


META = {
    "explanation": "process.spline_smooth, Weaver.smooth and Weaver.to_function executed on symbolic series with "
                   "splrep/BSpline replaced by a recording contract stub: the claims decide exactly what "
                   "traffic-weaver is responsible for - (x, y) reach splrep in that order with default degree and no "
                   "weights, s is forwarded, an omitted s becomes len(y)*var(y) (np.std runs natively on the exact "
                   "terms through a sqrt witness), to_function defaults to s = 0, smooth evaluates at the existing x "
                   "and leaves x and the length alone. The statements about the spline itself (sum of squared "
                   "deviations <= s, identity for s = 0) follow from the stub's contract "
                   "sum((g(x_i)-y_i)^2) <= s, i.e. they are assumptions about FITPACK, made explicit.",
    "bounds": {"quick": "series of 5..6 points", "thorough": "series of 5..8 points"},
    "outside": ["FITPACK's numerics (convergence, 0.1% tolerance, identity on affine data): contract stub, assumption",
                "float rounding"],
    "assumptions": ["x strictly increasing", "FITPACK contract: the returned spline g satisfies sum((g(x_i)-y_i)^2) <= s; "
                    "s = 0 interpolates"],
    "stubs": ["scipy.interpolate.splrep / BSpline (recording contract stub)"],
}

if __name__ == "__main__":
    ap = argparse.ArgumentParser()
    ap.add_argument("--tier", default="quick")
    a = ap.parse_args()
    sys.exit(run_check("C16", "smoothing", [Smooth()], a.tier, META))
