"""C11 - truncation and slicing select exactly the requested range."""
import argparse
import sys

import numpy as np

from symx.runner import Family, arr, increasing, run_check
from symx.core import Sym


def o_bounds(X, left, right):
    """documented selection: from the last sample <= left (or the first) to the first sample >= right (or the last)"""
    li = 0
    for i in range(len(X)):
        if X[i] <= left:
            li = i
    ri = len(X) - 1
    for i in range(len(X) - 1, -1, -1):
        if X[i] >= right:
            ri = i
    return li, ri


class Truncate(Family):
    name = "process-truncate"
    doc = "process.truncate on symbolic series and symbolic bounds (absolute or ratio)"

    def configs(self, tier):
        Ls = (2, 3, 4, 5, 6) if tier == "quick" else (2, 3, 4, 5, 6, 7, 8)
        return [{"L": L, "lr": lr, "rr": rr} for L in Ls for lr in (False, True) for rr in (False, True)] + \
               [{"L": 4, "lr": lr, "rr": rr, "xtype": t} for lr in (False, True) for rr in (False, True) for t in ("int-list", "int64")]

    def run(self, ctx, inst, L, lr, rr, xtype=None):
        from traffic_weaver import process
        xs, ys = ctx.reals("x", L), ctx.reals("y", L)
        increasing(ctx, xs)
        x_in = None
        if xtype:
            # integer-typed abscissae (list of ints / int64 array) with REAL bounds: the bounds are not narrowed to x's type
            import numpy as np
            ctx.typed_inputs = True
            xi = [-3, 0, 2, 7][:L]
            xs = [ctx.const(v) if ctx.symbolic else float(v) for v in xi]
            x_in = list(xi) if xtype == "int-list" else np.array(xi, dtype=np.int64)
        a, b = ctx.real("left"), ctx.real("right")
        X = [ctx.exact(v) for v in xs] if not ctx.symbolic else xs
        A = ctx.exact(a) if not ctx.symbolic else a
        B = ctx.exact(b) if not ctx.symbolic else b
        span = X[-1] - X[0]
        la = A * span + X[0] if lr else A
        ra = B * span + X[0] if rr else B
        ctx.assume(la < ra)
        rx, ry = process.truncate(arr(ctx, xs) if x_in is None else x_in, arr(ctx, ys), a, b, x_left_as_ratio=lr, x_right_as_ratio=rr)
        li, ri = o_bounds(X, la, ra)
        info = {"li": li, "ri": ri, "lr": lr, "rr": rr}
        ctx.claim("truncate:length", len(rx) == ri - li + 1 and len(ry) == ri - li + 1, info)
        if len(rx) == ri - li + 1 and len(ry) == len(rx):
            for k in range(ri - li + 1):
                ctx.claim("truncate:elements", ctx.And(ctx.same(rx[k], xs[li + k]) if x_in is None else ctx.eq(rx[k], xs[li + k]),
                                                       ctx.same(ry[k], ys[li + k])), dict(info, k=k))


class WeaverTruncate(Family):
    name = "weaver-truncate-by-value"
    doc = "Weaver.truncate_by_value cuts working and reference series each by the same bounds (also after a reshape)"

    def configs(self, tier):
        Ls = (3, 4, 5) if tier == "quick" else (3, 4, 5, 6)
        out = [{"L": L, "reshaped": rs, "lr": lr, "rr": rr} for L in Ls for rs in (False, True)
               for (lr, rr) in ((False, False), (True, True), (False, True))]
        # arbitrary states (not only those two histories): working and reference series that differ in their interior
        # points only ("gridded": same length, same end points - e.g. after interpolate(n=len(x)) of a non-uniform series),
        # in length ("reshaped") or also in range ("reshaped-other-range")
        for L in ((3, 4) if tier == "quick" else (3, 4, 5)):
            for kind in ("gridded", "reshaped", "reshaped-other-range"):
                for (lr, rr) in ((False, False), (True, True), (False, True)):
                    if kind == "reshaped-other-range" and L > 3:
                        continue
                    out.append({"L": L, "reshaped": kind, "lr": lr, "rr": rr})
        return out

    def run(self, ctx, inst, L, reshaped, lr, rr):
        from traffic_weaver import Weaver
        from traffic_weaver.rfa import PiecewiseConstantRFA
        a, b = ctx.real("left"), ctx.real("right")
        if isinstance(reshaped, str):
            from checks.weaverfam import make_state
            w = make_state(ctx, L, reshaped).w
        else:
            xs, ys = ctx.reals("x", L), ctx.reals("y", L)
            increasing(ctx, xs)
            w = Weaver(arr(ctx, xs), arr(ctx, ys))
            if reshaped:
                w.recreate_from_average(2, rfa_class=PiecewiseConstantRFA)
        WX, WY = list(w.get()[0]), list(w.get()[1])
        FX, FY = list(w.get_reference()[0]), list(w.get_reference()[1])
        ex = (lambda v: ctx.exact(v)) if not ctx.symbolic else (lambda v: v)
        A, B = ex(a), ex(b)
        out = {}
        for tag, SX in (("working", WX), ("reference", FX)):
            E = [ex(v) for v in SX]
            span = E[-1] - E[0]
            la = A * span + E[0] if lr else A
            ra = B * span + E[0] if rr else B
            ctx.assume(la < ra)
            out[tag] = o_bounds(E, la, ra)
        w.truncate_by_value(a, b, x_left_as_ratio=lr, x_right_as_ratio=rr)
        for tag, (SX, SY), (gx, gy) in (("working", (WX, WY), w.get()), ("reference", (FX, FY), w.get_reference())):
            li, ri = out[tag]
            ok = len(gx) == ri - li + 1 and len(gy) == ri - li + 1
            ctx.claim(tag + ":length", ok, {"li": li, "ri": ri})
            if ok:
                for k in range(ri - li + 1):
                    ctx.claim(tag + ":elements", ctx.And(ctx.same(gx[k], SX[li + k]), ctx.same(gy[k], SY[li + k])),
                              {"li": li, "ri": ri, "k": k})


class SliceByValue(Family):
    name = "slice-by-value"
    doc = "Weaver.slice_by_value(start, stop): precisely the samples with start <= x <= stop; omitted bound = end of series"

    def configs(self, tier):
        Ls = (2, 3, 4, 5) if tier == "quick" else (2, 3, 4, 5, 6, 7)
        return [{"L": L, "start": s, "stop": e, "step": st} for L in Ls for s in ("omitted", "none", "sym") for e in ("omitted", "none", "sym")
                for st in (1, 2, 3) if st == 1 or L >= 3]

    def run(self, ctx, inst, L, start, stop, step=1):
        from traffic_weaver import Weaver
        xs, ys = ctx.reals("x", L), ctx.reals("y", L)
        increasing(ctx, xs)
        X = [ctx.exact(v) for v in xs] if not ctx.symbolic else xs
        kw = {}
        lo = hi = None
        if start == "sym":
            s = ctx.real("start")
            S = ctx.exact(s) if not ctx.symbolic else s
            ctx.assume(ctx.Or(*[S == v for v in X]))     # precondition: start is a sample
            kw["start"], lo = s, S
        elif start == "none":
            kw["start"] = None
        if stop == "sym":
            e = ctx.real("stop")
            E = ctx.exact(e) if not ctx.symbolic else e
            ctx.assume(ctx.Or(*[E == v for v in X]))
            kw["stop"], hi = e, E
        elif stop == "none":
            kw["stop"] = None
        if lo is not None and hi is not None:
            ctx.assume(lo <= hi)
        w = Weaver(arr(ctx, xs), arr(ctx, ys))
        if step != 1:
            kw["step"] = step
        rx, ry = w.slice_by_value(**kw)
        keep = [i for i in range(L) if (lo is None or bool(lo <= X[i])) and (hi is None or bool(X[i] <= hi))][::step]
        ctx.claim("slice_by_value:length", len(rx) == len(keep) and len(ry) == len(keep), {"keep": keep, "kw": list(kw), "step": step})
        if len(rx) == len(keep) and len(ry) == len(keep):
            for k, i in enumerate(keep):
                ctx.claim("slice_by_value:elements", ctx.And(ctx.same(rx[k], xs[i]), ctx.same(ry[k], ys[i])), {"k": k})


class ByIndex(Family):
    name = "slice-and-truncate-by-index"
    doc = "slice_by_index / truncate_by_index agree with Python slice semantics for all in-range start/stop(/step)"

    def configs(self, tier):
        Ls = (1, 2, 3, 4, 5) if tier == "quick" else (1, 2, 3, 4, 5, 6, 7)
        return [{"L": L} for L in Ls]

    def run(self, ctx, inst, L):
        from traffic_weaver import Weaver
        xs, ys = ctx.reals("x", L), ctx.reals("y", L)
        increasing(ctx, xs)
        for start in range(0, L + 2):
            for stop in [None] + list(range(-L - 1, L + 1)):
                for step in (1, 2, 3):
                    w = Weaver(arr(ctx, xs), arr(ctx, ys))
                    rx, ry = w.slice_by_index(start, stop, step)
                    ex, ey = list(xs)[start:stop:step], list(ys)[start:stop:step]
                    ok = len(rx) == len(ex) and len(ry) == len(ey) and all(
                        ctx.same(p, q) is True or (not ctx.symbolic and ctx.same(p, q)) for p, q in zip(list(rx) + list(ry), ex + ey))
                    ctx.claim("slice_by_index=python-slice", ok, {"start": start, "stop": stop, "step": step})
                    if step == 1:
                        w = Weaver(arr(ctx, xs), arr(ctx, ys))
                        w.truncate_by_index(start, stop)
                        gx, gy = w.get()
                        fx, fy = w.get_reference()
                        ok = len(gx) == len(ex) and len(fx) == len(ex) and all(
                            ctx.same(p, q) is True or (not ctx.symbolic and ctx.same(p, q))
                            for p, q in zip(list(gx) + list(gy) + list(fx) + list(fy), ex + ey + ex + ey))
                        ctx.claim("truncate_by_index=python-slice(working+reference)", ok, {"start": start, "stop": stop})
        # defaults
        w = Weaver(arr(ctx, xs), arr(ctx, ys))
        rx, ry = w.slice_by_index()
        ctx.claim("slice_by_index:defaults-return-everything", len(rx) == L and len(ry) == L)


META = {
    "explanation": "process.truncate and the Weaver's truncate_by_value / slice_by_value / slice_by_index / "
                   "truncate_by_index executed on symbolic series with symbolic bounds: the neighbour searches fork on "
                   "every comparison, so bounds inside, exactly on and outside the data (including equal to the first or "
                   "last abscissa) are separate solver-checked paths; on each path the selected run is compared "
                   "element by element (identical terms) with the run chosen by a declarative oracle. Index-based "
                   "operations are enumerated over all in-range start/stop/step and compared with Python slicing.",
    "bounds": {"quick": "series of 2..6 points (truncate), 3..5 (Weaver, incl. after a reshape), 2..5 (slice by value), "
                        "1..5 (indices, steps 1..3); Weaver.truncate_by_value also from arbitrary states (gridded / reshaped / other-range) of 3..4 points; integer-typed abscissae (list / int64, 4 points) with real bounds", "thorough": "up to 8 / 6 / 7 / 7 points; arbitrary states of 3..5 points"},
    "outside": ["longer series", "float rounding in the ratio conversion"],
    "assumptions": ["x strictly increasing", "left < right (otherwise ValueError, see C20)",
                    "slice_by_value: given bounds are samples of x (otherwise ValueError, see C20), start <= stop"],
    "stubs": [],
}

if __name__ == "__main__":
    ap = argparse.ArgumentParser()
    ap.add_argument("--tier", default="quick")
    a = ap.parse_args()
    sys.exit(run_check("C11", "truncate and slice", [Truncate(), WeaverTruncate(), SliceByValue(), ByIndex()], a.tier, META))
