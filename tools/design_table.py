#!/usr/bin/env python3
"""Regenerate the per-property table of DESIGN.md section 1 from evidence/*.json (quick tier).  usage: tools/design_table.py [--write]"""
import json
import os
import re
import sys

HERE = os.path.dirname(os.path.dirname(os.path.abspath(__file__)))


def rows():
    out = ["| id | families (checks/cNN.py) | quick bounds (from the check's META, as written into evidence) | paths / obl. / wall |",
           "|---|---|---|---|"]
    for i in range(1, 21):
        pid = "C%02d" % i
        e = json.load(open(os.path.join(HERE, "evidence", pid + ".json")))
        c = e["coverage"]
        out.append("| %s | %s | %s | %d / %d / %d s |" % (pid, " · ".join(c["families"]), c["bounds"].replace("|", "/"), c["states"],
                                                       c["obligations"], round(e["wall_s"])))
    return "\n".join(out)


if __name__ == "__main__":
    t = rows()
    if "--write" in sys.argv:
        p = os.path.join(HERE, "DESIGN.md")
        s = open(p).read()
        s2 = re.sub(r"\| id \| families \(checks/cNN\.py\).*?\n(?=\nPer property)", t + "\n", s, flags=re.S)
        assert s2 != s or t in s
        open(p, "w").write(s2)
    else:
        print(t)
