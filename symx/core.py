"""symx core: path-exploring symbolic execution of ordinary Python/NumPy code over exact reals.

A `Sym` is a polynomial with Fraction coefficients over solver variables (canonical dict form, so
syntactically equal terms are recognised without a solver call).  Division, sqrt, fractional powers
and abs purify into fresh variables constrained in the path condition.  A comparison gives a
`SymBool`; `bool()` on it forks the execution (both sides are checked for feasibility with z3 under
the current path condition; the side not taken is queued as a decision prefix and explored later by
deterministic re-execution).

Nothing in here knows about traffic-weaver.
"""
from __future__ import annotations

import itertools
import math
import time
from fractions import Fraction

import z3

CUR = None  # the active Ctx (symbolic mode) or None


class PathAbort(BaseException):
    """The current path is infeasible / excluded by an assumption.  Not an error."""


class SubtreeCut(BaseException):
    """collect mode: this path continues in a separate task"""


class NonFinite(BaseException):
    """A feasible zero denominator / negative radicand: float NumPy would produce inf or NaN."""

    def __init__(self, what):
        super().__init__(what)
        self.what = what


class HarnessError(Exception):
    """The harness or the interposer hit something it does not model (never a verdict)."""


def _frac(v):
    if isinstance(v, Fraction):
        return v
    if isinstance(v, bool):
        return Fraction(int(v))
    if isinstance(v, int):
        return Fraction(v)
    if isinstance(v, float):
        if v != v or v in (math.inf, -math.inf):
            return None
        return Fraction(v)
    try:
        import numpy as _np
        if isinstance(v, _np.bool_):
            return Fraction(int(v))
        if isinstance(v, _np.integer):
            return Fraction(int(v))
        if isinstance(v, _np.floating):
            f = float(v)
            if f != f or f in (math.inf, -math.inf):
                return None
            return Fraction(f)
    except ImportError:  # pragma: no cover
        pass
    return None


# ------------------------------------------------------------------ polynomials (dict form)
# monomial = tuple of variable indices, sorted, repeated for powers; () is the constant monomial.

def p_const(c):
    c = Fraction(c)
    return {(): c} if c else {}


def p_add(a, b, sb=1):
    if len(a) < len(b) and sb == 1:
        a, b = b, a
    r = dict(a)
    for m, c in b.items():
        v = r.get(m, 0) + sb * c
        if v:
            r[m] = v
        else:
            r.pop(m, None)
    return r


def p_scale(a, k):
    if not k:
        return {}
    return {m: c * k for m, c in a.items()}


def p_mul(a, b):
    if not a or not b:
        return {}
    if len(a) == 1 and () in a:
        return p_scale(b, a[()])
    if len(b) == 1 and () in b:
        return p_scale(a, b[()])
    r = {}
    for m1, c1 in a.items():
        for m2, c2 in b.items():
            m = tuple(sorted(m1 + m2)) if m1 and m2 else (m1 or m2)
            v = r.get(m, 0) + c1 * c2
            if v:
                r[m] = v
            else:
                r.pop(m, None)
    return r


def p_is_const(a):
    return not a or (len(a) == 1 and () in a)


def p_const_val(a):
    return a.get((), Fraction(0))


def p_degree(a):
    return max((len(m) for m in a), default=0)


def p_key(a):
    return tuple(sorted(a.items()))


def p_norm(a):
    """Scale so that the leading (smallest-key) non-constant coefficient is +1.
    Returns (normalised poly key, sign of the scaling factor)."""
    ms = sorted(m for m in a if m)
    if not ms:
        return p_key(a), 1
    lead = a[ms[0]]
    k = 1 / lead
    return p_key(p_scale(a, k)), (1 if k > 0 else -1)


# ------------------------------------------------------------------ symbolic scalars

class Sym:
    __slots__ = ("p", "_z", "_k")

    def __init__(self, p):
        self.p = p
        self._z = None
        self._k = None

    # -- helpers
    @staticmethod
    def lift(v):
        if isinstance(v, Sym):
            return v
        f = _frac(v)
        if f is None:
            return None
        return Sym(p_const(f))

    def is_const(self):
        return p_is_const(self.p)

    def const(self):
        return p_const_val(self.p)

    def key(self):
        if self._k is None:
            self._k = p_key(self.p)
        return self._k

    def z3(self):
        if self._z is None:
            self._z = CUR.poly_z3(self.p)
        return self._z

    def __repr__(self):
        if self.is_const():
            return "Sym(%s)" % self.const()
        parts = []
        for m, c in sorted(self.p.items()):
            names = "*".join(CUR.var_names[i] for i in m) if CUR is not None else str(m)
            parts.append("%s%s" % (c, ("*" + names) if m else ""))
        return "Sym(" + " + ".join(parts) + ")"

    def __hash__(self):
        return hash(self.key())

    # -- arithmetic
    def __add__(self, o):
        o = Sym.lift(o)
        if o is None:
            return NotImplemented
        return Sym(p_add(self.p, o.p))

    __radd__ = __add__

    def __sub__(self, o):
        o = Sym.lift(o)
        if o is None:
            return NotImplemented
        return Sym(p_add(self.p, o.p, -1))

    def __rsub__(self, o):
        o = Sym.lift(o)
        if o is None:
            return NotImplemented
        return Sym(p_add(o.p, self.p, -1))

    def __mul__(self, o):
        o = Sym.lift(o)
        if o is None:
            return NotImplemented
        return Sym(p_mul(self.p, o.p))

    __rmul__ = __mul__

    def __neg__(self):
        return Sym(p_scale(self.p, -1))

    def __pos__(self):
        return self

    def __truediv__(self, o):
        o = Sym.lift(o)
        if o is None:
            return NotImplemented
        return _divide(self, o)

    def __rtruediv__(self, o):
        o = Sym.lift(o)
        if o is None:
            return NotImplemented
        return _divide(o, self)

    def __floordiv__(self, o):
        q = self / o
        return Sym(p_const(_floor(q)))

    def __rfloordiv__(self, o):
        q = Sym.lift(o) / self
        return Sym(p_const(_floor(q)))

    def __mod__(self, o):
        # Python / NumPy: a % b = a - b * floor(a / b)
        return self - Sym.lift(o) * (self // o)

    def __rmod__(self, o):
        return Sym.lift(o) - self * (Sym.lift(o) // self)

    def __divmod__(self, o):
        q = self // o
        return q, self - Sym.lift(o) * q

    def __abs__(self):
        if self.is_const():
            return Sym(p_const(abs(self.const())))
        if bool(self >= 0):
            return self
        return -self

    def __pow__(self, e):
        return _power(self, e)

    def __rpow__(self, b):
        b = Sym.lift(b)
        if b is None:
            return NotImplemented
        return _power(b, self)

    def conjugate(self):
        return self

    def floor(self):
        return Sym(p_const(_floor(self)))

    def ceil(self):
        return Sym(p_const(-_floor(-self)))

    def __floor__(self):
        return _floor(self)

    def __ceil__(self):
        return -_floor(-self)

    def rint(self):
        return Sym(p_const(_floor(self + Fraction(1, 2))))

    def sqrt(self):
        return _root(self, 1, 2)

    # -- coercions
    def __float__(self):
        if self.is_const():
            return float(self.const())
        raise HarnessError("symbolic value coerced to float (unmodelled C boundary): %r" % (self,))

    def __int__(self):
        if self.is_const():
            return int(self.const())
        return _trunc(self)

    __trunc__ = __int__

    def __bool__(self):
        return bool(self != 0)

    def __round__(self, n=None):
        if self.is_const():
            return round(self.const(), n)
        if n not in (None, 0):
            raise HarnessError("round(symbolic, ndigits)")
        # Python rounds half to even
        h = self + Fraction(1, 2)
        k = _floor(h)
        if k % 2 == 1 and bool(h == k):
            k -= 1
        return k

    # -- comparisons
    def _cmp(self, o, op, swap=False):
        o = Sym.lift(o)
        if o is None:
            return NotImplemented
        d = p_add(self.p, o.p, -1)
        if swap:
            d = p_scale(d, -1)
        return mk_atom(d, op)

    def __lt__(self, o):
        return self._cmp(o, "<")

    def __le__(self, o):
        return self._cmp(o, "<=")

    def __gt__(self, o):
        return self._cmp(o, "<", swap=True)

    def __ge__(self, o):
        return self._cmp(o, "<=", swap=True)

    def __eq__(self, o):
        if o is None:
            return False
        r = self._cmp(o, "==")
        return False if r is NotImplemented else r

    def __ne__(self, o):
        if o is None:
            return True
        r = self._cmp(o, "!=")
        return True if r is NotImplemented else r


def mk_atom(d, op):
    """d `op` 0 with op in <, <=, ==, !=.  Constant polynomials are decided on the spot."""
    if p_is_const(d):
        c = p_const_val(d)
        return {"<": c < 0, "<=": c <= 0, "==": c == 0, "!=": c != 0}[op]
    return SymBool("atom", (d, op))


class SymBool:
    """Boolean formula over polynomial atoms.  bool() forks the execution."""
    __slots__ = ("kind", "args", "_z", "_k")

    def __init__(self, kind, args):
        self.kind = kind
        self.args = args
        self._z = None
        self._k = None

    def key(self):
        if self._k is None:
            if self.kind == "atom":
                d, op = self.args
                nk, sg = p_norm(d)
                if op in ("==", "!="):
                    self._k = (op, nk)
                elif sg > 0:
                    self._k = (op, nk)  # nk op 0
                else:
                    # -nk' op 0  <=>  nk' op' 0 reversed:  d<0 & d = -s*nk  => nk > 0
                    self._k = ({"<": ">", "<=": ">="}[op], nk)
            else:
                self._k = (self.kind,) + tuple(_key_of(a) for a in self.args)
        return self._k

    def z3(self):
        if self._z is None:
            if self.kind == "atom":
                d, op = self.args
                e = CUR.poly_z3(d)
                self._z = {"<": e < 0, "<=": e <= 0, "==": e == 0, "!=": e != 0}[op]
            elif self.kind == "and":
                self._z = z3.And(*[_z3_of(a) for a in self.args])
            elif self.kind == "or":
                self._z = z3.Or(*[_z3_of(a) for a in self.args])
            elif self.kind == "not":
                self._z = z3.Not(_z3_of(self.args[0]))
            else:  # pragma: no cover
                raise HarnessError("bad SymBool kind")
        return self._z

    def degree(self):
        if self.kind == "atom":
            return p_degree(self.args[0])
        return max((a.degree() for a in self.args if isinstance(a, SymBool)), default=0)

    def __bool__(self):
        if CUR is None:
            raise HarnessError("SymBool evaluated outside a symbolic run")
        return CUR.decide(self)

    def __invert__(self):
        return Not(self)

    def __and__(self, o):
        return And(self, o)

    __rand__ = __and__

    def __or__(self, o):
        return Or(self, o)

    __ror__ = __or__

    def __repr__(self):
        if self.kind == "atom":
            return "(%r %s 0)" % (Sym(self.args[0]), self.args[1])
        return "%s(%s)" % (self.kind, ", ".join(map(repr, self.args)))

    def __hash__(self):
        return hash(self.key())


def _key_of(a):
    return a.key() if isinstance(a, SymBool) else bool(a)


def _z3_of(a):
    return a.z3() if isinstance(a, SymBool) else z3.BoolVal(bool(a))


def _is_bool(a):
    try:
        import numpy as _np
        return isinstance(a, (bool, _np.bool_))
    except ImportError:  # pragma: no cover
        return isinstance(a, bool)


def And(*xs):
    flat = []
    for x in xs:
        if _is_bool(x):
            if not x:
                return False
            continue
        if not isinstance(x, SymBool):
            raise HarnessError("And() of non-boolean %r" % (x,))
        flat.append(x)
    if not flat:
        return True
    return flat[0] if len(flat) == 1 else SymBool("and", tuple(flat))


def Or(*xs):
    flat = []
    for x in xs:
        if _is_bool(x):
            if x:
                return True
            continue
        if not isinstance(x, SymBool):
            raise HarnessError("Or() of non-boolean %r" % (x,))
        flat.append(x)
    if not flat:
        return False
    return flat[0] if len(flat) == 1 else SymBool("or", tuple(flat))


def Not(x):
    if _is_bool(x):
        return not x
    if x.kind == "not":
        return x.args[0]
    if x.kind == "atom":
        d, op = x.args
        if op == "==":
            return SymBool("atom", (d, "!="))
        if op == "!=":
            return SymBool("atom", (d, "=="))
        if op == "<":  # not(d<0) = -d <= 0
            return SymBool("atom", (p_scale(d, -1), "<="))
        return SymBool("atom", (p_scale(d, -1), "<"))
    return SymBool("not", (x,))


def Implies(a, b):
    return Or(Not(a), b)


# ------------------------------------------------------------------ purification

def _divide(a, b):
    if b.is_const():
        c = b.const()
        if c == 0:
            raise NonFinite("division by constant zero")
        return Sym(p_scale(a.p, 1 / c))
    ctx = CUR
    if ctx is None:
        raise HarnessError("symbolic division outside a run")
    if bool(b == 0):
        raise NonFinite("division by a denominator that can be zero: %r" % (b,))
    if not a.p:
        return a
    # proportional?  a == c*b
    if set(a.p) == set(b.p):
        it = iter(a.p)
        m0 = next(it)
        c = a.p[m0] / b.p[m0]
        if all(a.p[m] == c * b.p[m] for m in a.p):
            return Sym(p_const(c))
    # normalise: divide both by the leading coefficient of b (keeps cache hits across scalings)
    lead_m = min(b.p)
    k = b.p[lead_m]
    an, bn = p_scale(a.p, 1 / k), p_scale(b.p, 1 / k)
    ck = ("div", p_key(an), p_key(bn))
    q = ctx.purify.get(ck)
    if q is None:
        q = ctx.fresh("q")
        ctx.purify[ck] = q
        # definition: q * b == a   (b != 0 is already on the path)
        ctx.add_def(mk_atom(p_add(p_mul(q.p, bn), an, -1), "=="))
    else:
        ctx.redefine(ck)
    return q


def _root(a, p, q):
    """a ** (p/q) for integers p, q > 0 (q > 1): r >= 0 with r**q == a**p.  Needs a >= 0."""
    if a.is_const():
        c = a.const()
        if c < 0:
            raise NonFinite("root of a negative constant")
        # exact rational root?
        num, den = c.numerator ** p, c.denominator ** p
        rn, rd = _iroot(num, q), _iroot(den, q)
        if rn is not None and rd is not None:
            return Sym(p_const(Fraction(rn, rd)))
    ctx = CUR
    if ctx is None:
        raise HarnessError("symbolic root outside a run")
    if not a.is_const() and bool(a < 0):
        raise NonFinite("root of a radicand that can be negative: %r" % (a,))
    ck = ("root", a.key(), p, q)
    r = ctx.purify.get(ck)
    if r is None:
        r = ctx.fresh("r")
        ctx.purify[ck] = r
        ap = Sym(p_const(1))
        for _ in range(p):
            ap = ap * a
        rq = Sym(p_const(1))
        for _ in range(q):
            rq = rq * r
        ctx.add_def(And(r >= 0, rq == ap))
        if a.is_const():
            # an irrational constant: give the solver a tight rational enclosure as well (sound: checked exactly), so
            # that sign questions about linear combinations of such roots close by linear reasoning
            val = float(a.const()) ** (p / q)
            for scale in (10 ** 12, 10 ** 9, 10 ** 6):
                lo, hi = Fraction(math.floor(val * scale) - 1, scale), Fraction(math.floor(val * scale) + 2, scale)
                if lo >= 0 and lo ** q < a.const() ** p < hi ** q:
                    ctx.add_def(And(r > lo, r < hi))
                    break
    else:
        ctx.redefine(ck)
    return r


def _iroot(n, q):
    if n < 0:
        return None
    r = round(n ** (1.0 / q)) if n < 2 ** 52 else int(n ** (1.0 / q))
    for c in (r - 1, r, r + 1):
        if c >= 0 and c ** q == n:
            return c
    return None


def _power(b, e):
    """b ** e.  e: int / Fraction / dyadic float constant, or symbolic (uninterpreted pow)."""
    if isinstance(e, Sym):
        if e.is_const():
            e = e.const()
        else:
            return CUR.upow(b, e)
    else:
        f = _frac(e)
        if f is None:
            raise HarnessError("power with exponent %r" % (e,))
        e = f
    if e.denominator == 1:
        n = int(e)
        if n >= 0:
            r = Sym(p_const(1))
            for _ in range(n):
                r = r * b
            return r
        return Sym(p_const(1)) / _power(b, -n)
    if e < 0:
        return Sym(p_const(1)) / _power(b, -e)
    return _root(b, e.numerator, e.denominator)


def _floor(v):
    """floor of a Sym as a Python int, forking over the feasible integers.

    Bounded values (window sizes, counts) are enumerated completely.  For a value the path condition does not
    bound (e.g. an arbitrary real stored into an integer array) only a spread of cases is explored - floor(v) in
    {0, +-1, +-2, 3, 5, 8, 13, 21, 34, 55, 89, -3, -8} at the first such site of a path, {0, +-1} at later ones -
    and the remaining ones are cut with the run marked as not exhaustive."""
    if v.is_const():
        return math.floor(v.const())
    ctx = CUR
    cap = ctx.int_cap
    unbounded = ctx.check(Or(v > cap, v < -cap)) != "unsat"
    if unbounded:
        # the first such site on a path gets a wide spread of cases, later ones a narrow one (the product of cases
        # over several sites would explode)
        ctx.unbounded_int_sites += 1
        cases = (0, 1, -1, 2, -2, 3, 5, 8, 13, 21, 34, 55, 89, -3, -8) if ctx.unbounded_int_sites == 1 else (0, 1, -1)
        for k in cases:
            if bool(And(v >= k, v < k + 1)):
                return k
        ctx.ex.int_cases_cut += 1
        raise PathAbort()
    k = 0
    if bool(v >= 0):
        while bool(v >= k + 1):
            k += 1
            if k > cap:
                raise HarnessError("floor(): value not bounded on this path: %r" % (v,))
        return k
    k = -1
    while bool(v < k):
        k -= 1
        if k < -cap:
            raise HarnessError("floor(): value not bounded on this path: %r" % (v,))
    return k


def _trunc(v):
    if bool(v >= 0):
        return _floor(v)
    return -_floor(-v)


# ------------------------------------------------------------------ execution context

class Stats:
    def __init__(self):
        self.paths = 0
        self.paths_aborted = 0
        self.paths_nonfinite = 0
        self.decisions = 0
        self.forks = 0
        self.solver_calls = 0
        self.solver_s = 0.0
        self.unknown = 0
        self.obligations = 0
        self.discharged = 0
        self.trivial = 0
        self.sat = 0
        self.inconclusive = 0
        self.reach_ok = 0

    def merge(self, o):
        for k, v in o.__dict__.items():
            setattr(self, k, getattr(self, k) + v)

    def as_dict(self):
        d = dict(self.__dict__)
        d["solver_s"] = round(d["solver_s"], 3)
        return d


class Ctx:
    """One symbolic path.  Re-created for every path; `prefix` is the decision list to follow."""

    def __init__(self, explorer, prefix):
        self.ex = explorer
        self.prefix = prefix
        self.decisions = []
        self.var_names = []
        self.z3vars = []
        self.input_vars = {}      # name -> Sym (harness inputs, for models / replay)
        self.int_inputs = set()
        self.unbounded_int_sites = 0
        self.purify = {}
        self.known = {}
        self.pc = []              # list of (SymBool, tag)
        self.solver = z3.Solver()
        self.solver.set("timeout", explorer.query_timeout_ms)
        self.nonlinear = False
        self.claims = []          # (name, cond, info)
        self.notes = {}
        self.int_cap = 4096
        self.fresh_n = itertools.count()
        self.upow_apps = {}
        self.trace = []
        self.symbolic = True

    # ---- variables
    def _newvar(self, name):
        idx = len(self.var_names)
        self.var_names.append(name)
        self.z3vars.append(z3.Real(name))
        return Sym({(idx,): Fraction(1)})

    def real(self, name):
        if name in self.input_vars:
            raise HarnessError("duplicate input %s" % name)
        v = self._newvar(name)
        self.input_vars[name] = v
        return v

    def reals(self, prefix, n):
        return [self.real("%s%d" % (prefix, i)) for i in range(n)]

    def int(self, name, lo, hi):
        """integer-valued input in [lo, hi] (z3 Int cast to Real, so it mixes with the real terms)"""
        if name in self.input_vars:
            raise HarnessError("duplicate input %s" % name)
        idx = len(self.var_names)
        self.var_names.append(name)
        self.z3vars.append(z3.ToReal(z3.Int(name)))
        v = Sym({(idx,): Fraction(1)})
        self.input_vars[name] = v
        self.int_inputs.add(name)
        self._push(And(v >= lo, v <= hi), "assume")
        return v

    def fresh(self, prefix):
        return self._newvar("%s!%d" % (prefix, next(self.fresh_n)))

    def const(self, v):
        return Sym(p_const(_frac(v)))

    def poly_z3(self, p):
        if not p:
            return z3.RealVal(0)
        terms = []
        for m, c in p.items():
            t = None
            for i in m:
                t = self.z3vars[i] if t is None else t * self.z3vars[i]
            cv = z3.RealVal(str(c)) if c.denominator != 1 else z3.RealVal(c.numerator)
            if t is None:
                terms.append(cv)
            elif c == 1:
                terms.append(t)
            else:
                terms.append(cv * t)
        return terms[0] if len(terms) == 1 else z3.Sum(terms)

    # ---- path condition
    def _push(self, cond, tag):
        if _is_bool(cond):
            if not cond:
                raise PathAbort()
            return
        self.pc.append((cond, tag))
        if cond.degree() > 1:
            self.nonlinear = True
        self.solver.add(cond.z3())
        self.known[cond.key()] = True
        n = Not(cond)
        if isinstance(n, SymBool):
            self.known[n.key()] = False

    def add_def(self, cond):
        """Definition of a fresh variable: always satisfiable given the checks done before."""
        self._push(cond, "def")

    def redefine(self, ck):
        pass

    def assume(self, cond):
        """Restrict the inputs.  Aborts the path if the assumption cannot hold on it."""
        if _is_bool(cond):
            if not cond:
                raise PathAbort()
            return
        k = cond.key()
        kn = self.known.get(k)
        if kn is True:
            return
        if kn is False:
            raise PathAbort()
        r = self.check(cond)
        if r == "unsat":
            raise PathAbort()
        self._push(cond, "assume")

    def check(self, extra=None, timeout_ms=None):
        """sat / unsat / unknown for pc (and extra).

        Linear path conditions go to one incremental solver (push/pop).  Once a non-linear
        constraint is on the path, z3's incremental core tends to burn its whole budget and answer
        `unknown` where the nlsat tactic answers in milliseconds, so non-linear queries go to a
        fresh nlsat solver first and to the incremental one only as a fallback.
        """
        t0 = time.perf_counter()
        st = self.ex.stats
        st.solver_calls += 1
        budget = timeout_ms or self.ex.query_timeout_ms
        nl = self.nonlinear or (isinstance(extra, SymBool) and extra.degree() > 1)
        rs = "unknown"
        if nl:
            # nlsat with a short budget, then the incremental core (which closes enclosure-style questions by linear
            # reasoning), then nlsat with the full budget
            rs = self._check_nl(extra, min(budget, 2500))
        if rs == "unknown":
            s = self.solver
            s.set("timeout", min(budget, 2500) if nl else budget)
            if extra is None:
                r = s.check()
                if r == z3.sat:
                    self._last_model = s.model()
            else:
                s.push()
                s.add(extra.z3() if isinstance(extra, SymBool) else extra)
                r = s.check()
                if r == z3.sat:
                    self._last_model = s.model()
                s.pop()
            rs = str(r)
        if rs == "unknown" and nl and budget > 2500:
            rs = self._check_nl(extra, budget)
        st.solver_s += time.perf_counter() - t0
        if rs == "unknown":
            st.unknown += 1
        return rs

    def _check_nl(self, extra, timeout_ms):
        """Second opinion for non-linear queries: a fresh nlsat-based solver."""
        for mk in (lambda: z3.Tactic("qfnra-nlsat").solver(), lambda: z3.SolverFor("QF_NRA")):
            s = mk()
            s.set("timeout", timeout_ms)
            for c, _ in self.pc:
                s.add(c.z3())
            if extra is not None:
                s.add(extra.z3() if isinstance(extra, SymBool) else extra)
            r = s.check()
            if str(r) != "unknown":
                if r == z3.sat:
                    self._last_model = s.model()
                return str(r)
        return "unknown"

    def decide(self, sb):
        k = sb.key()
        kn = self.known.get(k)
        if kn is not None:
            return kn
        st = self.ex.stats
        i = len(self.decisions)
        if self.ex.collect_depth is not None and i >= self.ex.collect_depth and i >= len(self.prefix):
            self.ex.roots.append(list(self.decisions))
            raise SubtreeCut()
        if i < len(self.prefix):
            val = self.prefix[i]
        else:
            if self.ex.deadline and time.time() > self.ex.deadline + 90:
                # a single path whose branch queries keep timing out must not outlive the budget by much:
                # abandon it, reported as TRUNCATED (never as covered)
                self.ex.truncated = True
                raise PathAbort()
            rt = self.check(sb)
            if rt == "unsat":
                rf = "sat?"
                val = False
            else:
                nsb = Not(sb)
                rf = self.check(nsb)
                if rf == "unsat":
                    val = True
                else:
                    val = True
                    st.forks += 1
                    self.ex.push_work(self.decisions + [False])
            if rt == "unsat" and False:
                pass
        self.decisions.append(val)
        st.decisions += 1
        self._push(sb if val else Not(sb), "branch")
        if self.ex.max_decisions and len(self.decisions) > self.ex.max_decisions:
            raise HarnessError("path longer than max_decisions")
        return val

    def model_of(self, extra=None):
        """After a sat check(): values of the harness inputs (Fractions or floats)."""
        m = self._last_model
        out = {}
        for name, v in self.input_vars.items():
            (idx,), = v.p.keys()
            zv = m.eval(self.z3vars[idx], model_completion=True)
            out[name] = _zval(zv)
        return out

    def nice_model(self, neg, margin_fn=None, generic=False):
        """After `pc & neg` was found sat: look for a model that replays robustly on float64 —
        inputs bounded, on a dyadic lattice (exactly representable) where possible, and violating the
        claim by a visible margin (a ladder of margins is tried, largest first)."""
        best = self.model_of()
        attempts = []
        margins = [Fraction(1, 64), Fraction(1, 2 ** 20)] if margin_fn is not None else []
        for mg in margins:
            m = margin_fn(mg)
            if m is not None:
                if not self.nonlinear:
                    attempts.append((m, True))
                attempts.append((m, False))
        if not self.nonlinear:
            attempts.append((None, True))
        for extra, lattice in attempts:
            s = z3.Solver() if not self.nonlinear else z3.Tactic("qfnra-nlsat").solver()
            s.set("timeout", 3000)
            for c, _ in self.pc:
                s.add(c.z3())
            s.add(neg.z3() if isinstance(neg, SymBool) else neg)
            if extra is not None:
                s.add(extra.z3() if isinstance(extra, SymBool) else extra)
            for name, v in self.input_vars.items():
                if name in self.int_inputs:
                    continue
                (idx,), = v.p.keys()
                zv = self.z3vars[idx]
                s.add(zv >= -64, zv <= 64)
                if lattice:
                    k = z3.Int("k!" + name)
                    s.add(zv * 16 == z3.ToReal(k))
            try:
                r = s.check()
            except z3.Z3Exception:
                continue
            if r == z3.sat:
                self._last_model = s.model()
                if generic:
                    self._genericise(s)
                return self.model_of()
        return best

    def _genericise(self, s):
        """z3 completes unconstrained inputs with 0; a stub (spline, trend, noise) or a tie-dependent branch often
        needs GENERIC values to show a divergence on the real code.  Greedily pin each input to a distinct dyadic
        value where the constraints allow it."""
        t_end = time.time() + 4.0
        s.set("timeout", 400)
        k = 0
        for name, v in self.input_vars.items():
            if name in self.int_inputs:
                continue
            if time.time() > t_end:
                break
            (idx,), = v.p.keys()
            zv = self.z3vars[idx]
            k += 1
            g = Fraction(((k * 37 + 11) % 41) - 20, 8) + Fraction(k % 3, 16)
            s.push()
            s.add(zv == z3.Q(g.numerator, g.denominator))
            try:
                r = s.check()
            except z3.Z3Exception:
                r = z3.unknown
            if r == z3.sat:
                self._last_model = s.model()
            else:
                s.pop()

    def exact(self, v):
        return Sym.lift(v)

    def uf_table(self, tag):
        """value table of the uninterpreted function `tag` on this path"""
        return self.__dict__.setdefault("_uf_tables", {}).setdefault(tag, {})

    def model_all(self):
        m = self._last_model
        return {n: _zval(m.eval(v, model_completion=True)) for n, v in zip(self.var_names, self.z3vars)}

    # ---- uninterpreted pow (symbolic exponent)
    def upow(self, b, e):
        ck = ("pow", b.key(), e.key())
        r = self.purify.get(ck)
        if r is not None:
            return r
        r = self.fresh("pw")
        self.purify[ck] = r
        # axioms on this application (b >= 0 assumed by the caller's domain; e > 0):
        #   b == 0 -> r == 0 ; b == 1 -> r == 1 ; 0 < b < 1 -> 0 < r < 1 ; b > 1 -> r > 1 ; b > 0 -> r > 0
        ax = And(Implies(b == 0, r == 0), Implies(b == 1, r == 1),
                 Implies(And(b > 0, b < 1), And(r > 0, r < 1)), Implies(b > 1, r > 1), r >= 0)
        self.add_def(ax)
        # congruence / monotonicity w.r.t. earlier applications with the same exponent
        for (b2, e2, r2) in self.upow_apps.get(e.key(), []):
            self.add_def(And(Implies(b == b2, r == r2), Implies(b < b2, r <= r2), Implies(b2 < b, r2 <= r),
                             Implies(And(b < b2, b2 > 0, b >= 0), r < r2), Implies(And(b2 < b, b > 0, b2 >= 0), r2 < r)))
        self.upow_apps.setdefault(e.key(), []).append((b, e, r))
        return r

    # ---- claims
    def claim(self, name, cond, info=None):
        self.claims.append((name, cond, info))

    def note(self, k, v):
        self.notes[k] = v

    # ---- mode-agnostic helpers (same harness code runs in symbolic and concrete mode)
    def eq(self, a, b):
        a, b = Sym.lift(a), Sym.lift(b)
        if a is None or b is None:
            return False
        return a == b

    def ne(self, a, b):
        return Not(self.eq(a, b))

    def le(self, a, b):
        return Sym.lift(a) <= Sym.lift(b)

    def lt(self, a, b):
        return Sym.lift(a) < Sym.lift(b)

    def between(self, z, a, b):
        """z lies in the closed interval spanned by a and b (either order)."""
        z, a, b = Sym.lift(z), Sym.lift(a), Sym.lift(b)
        return Or(And(a <= z, z <= b), And(b <= z, z <= a))

    def same(self, a, b):
        """Identical value in every model (decided syntactically when possible)."""
        return self.eq(a, b)

    def is_finite(self, a):
        return isinstance(a, Sym) or (_frac(a) is not None)

    And = staticmethod(And)
    Or = staticmethod(Or)
    Not = staticmethod(Not)
    Implies = staticmethod(Implies)


def _zval(zv):
    if z3.is_rational_value(zv):
        return Fraction(zv.numerator_as_long(), zv.denominator_as_long())
    if z3.is_algebraic_value(zv):
        a = zv.approx(30)
        return Fraction(a.numerator_as_long(), a.denominator_as_long())
    if z3.is_int_value(zv):
        return Fraction(zv.as_long())
    try:
        return Fraction(str(zv))
    except Exception:
        return Fraction(0)


# ------------------------------------------------------------------ concrete twin of Ctx

class ConcreteCtx:
    """Runs the same harness on plain floats against the unmodified code (replay)."""
    symbolic = False

    def __init__(self, model, tol=1e-9):
        self.model = model
        self.tol = tol
        self.claims = []
        self.notes = {}
        self.missing = []

    def real(self, name):
        if name not in self.model:
            self.missing.append(name)
            return 0.0
        return float(self.model[name])

    def reals(self, prefix, n):
        return [self.real("%s%d" % (prefix, i)) for i in range(n)]

    def const(self, v):
        return float(v)

    def int(self, name, lo, hi):
        if name not in self.model:
            self.missing.append(name)
            return lo
        return int(round(float(self.model[name])))

    def assume(self, cond):
        if not cond:
            raise PathAbort()

    def claim(self, name, cond, info=None):
        self.claims.append((name, bool(cond), info))

    def note(self, k, v):
        self.notes[k] = v

    def _scale(self, *xs):
        return self.tol * max([1.0] + [abs(float(x)) for x in xs if _finite(x)])

    def eq(self, a, b):
        if not (_finite(a) and _finite(b)):
            return False
        return abs(float(a) - float(b)) <= self._scale(a, b)

    def ne(self, a, b):
        if not (_finite(a) and _finite(b)):
            return True
        return abs(float(a) - float(b)) > 0

    def le(self, a, b):
        if not (_finite(a) and _finite(b)):
            return False
        return float(a) <= float(b) + self._scale(a, b)

    def lt(self, a, b):
        # lenient: only a clear reversal counts as a violation of a strict claim
        if not (_finite(a) and _finite(b)):
            return False
        return float(a) < float(b) + self._scale(a, b)

    def between(self, z, a, b):
        return self.le(min(a, b), z) and self.le(z, max(a, b))

    def same(self, a, b):
        return self.eq(a, b)

    def exact(self, v):
        """exact rational value of a float (for oracles that only compare inputs)"""
        return Fraction(float(v))

    def uf_table(self, tag):
        return self.__dict__.setdefault("_uf_tables", {}).setdefault(tag, {})

    def is_finite(self, a):
        return _finite(a)

    @staticmethod
    def And(*xs):
        return all(bool(x) for x in xs)

    @staticmethod
    def Or(*xs):
        return any(bool(x) for x in xs)

    @staticmethod
    def Not(x):
        return not bool(x)

    @staticmethod
    def Implies(a, b):
        return (not bool(a)) or bool(b)


def _finite(x):
    try:
        f = float(x)
    except Exception:
        return False
    return f == f and f not in (math.inf, -math.inf)


# ------------------------------------------------------------------ explorer

class PathResult:
    __slots__ = ("outcome", "exc", "decisions", "claims", "notes")


class Explorer:
    """Depth-first exploration of all feasible paths of `fn(ctx)`.

    fn(ctx) runs the code under test and records claims; it may raise:
      PathAbort  - path excluded by an assumption
      NonFinite  - feasible inf/NaN;   handed to `on_nonfinite` (default: a violation candidate)
    After each path every claim is checked: pc & not claim must be unsat.
    """

    def __init__(self, query_timeout_ms=20000, max_paths=None, max_decisions=2000, deadline=None):
        self.query_timeout_ms = query_timeout_ms
        self.max_paths = max_paths
        self.max_decisions = max_decisions
        self.deadline = deadline
        self.stats = Stats()
        self.work = []
        self.candidates = []     # (claim name, model, decisions, info)
        self.inconclusive = []   # (claim name, decisions)
        self.samples = []
        self.truncated = False
        self.nonfinite_is_violation = True
        self.reached = set()
        self.reach_checked = False
        self.margin_fn = None
        self.int_cases_cut = 0
        self.generic_done = {}
        self.collect_depth = None   # cut paths at this many decisions and hand the subtrees out as `roots`
        self.roots = []

    def push_work(self, prefix):
        self.work.append(prefix)

    def run(self, fn, root=None):
        global CUR
        self.work.append(list(root or []))
        while self.work:
            if self.max_paths and self.stats.paths >= self.max_paths:
                self.truncated = True
                break
            if self.deadline and time.time() > self.deadline:
                self.truncated = True
                break
            prefix = self.work.pop()
            ctx = Ctx(self, prefix)
            prev = CUR
            CUR = ctx
            try:
                self._one(fn, ctx)
            finally:
                CUR = prev
        return self

    def _one(self, fn, ctx):
        st = self.stats
        st.paths += 1
        try:
            fn(ctx)
        except PathAbort:
            st.paths_aborted += 1
            return
        except SubtreeCut:
            st.paths -= 1
            return
        except NonFinite as e:
            st.paths_nonfinite += 1
            if self.nonfinite_is_violation:
                r = ctx.check(z3.BoolVal(True))
                if r == "sat":
                    self.candidates.append(("finite-values: " + e.what, ctx.model_of(), list(ctx.decisions), None))
                    st.obligations += 1
                    st.sat += 1
                elif r == "unknown":
                    st.obligations += 1
                    st.inconclusive += 1
                    self.inconclusive.append(("finite-values: " + e.what, list(ctx.decisions)))
            return
        # claims
        for name, cond, info in ctx.claims:
            st.obligations += 1
            self.reached.add(name)
            if _is_bool(cond):
                if cond:
                    st.discharged += 1
                    st.trivial += 1
                else:
                    r = ctx.check(z3.BoolVal(True))
                    if r == "sat":
                        st.sat += 1
                        try:
                            model = ctx.nice_model(z3.BoolVal(True))
                        except z3.Z3Exception:
                            model = ctx.model_of()
                        self.candidates.append((name, model, list(ctx.decisions), info))
                    elif r == "unsat":
                        st.discharged += 1
                    else:
                        st.inconclusive += 1
                        self.inconclusive.append((name, list(ctx.decisions)))
                continue
            if not isinstance(cond, SymBool):
                raise HarnessError("claim %s is not boolean: %r" % (name, cond))
            if ctx.known.get(cond.key()) is True:
                st.discharged += 1
                st.trivial += 1
                continue
            neg = Not(cond)
            r = ctx.check(neg)
            if r == "unsat":
                st.discharged += 1
            elif r == "sat":
                st.sat += 1
                mf = (lambda mg, c=cond: self.margin_fn(c, mg)) if self.margin_fn else None
                try:
                    model = ctx.nice_model(neg, mf)
                except z3.Z3Exception:
                    model = ctx.model_of()
                self.candidates.append((name, model, list(ctx.decisions), info))
                # a second model of the same failing obligation with generic instead of default (zero) values
                self.generic_done[name] = self.generic_done.get(name, 0) + 1
                if self.generic_done[name] <= 3:
                    try:
                        gm = ctx.nice_model(neg, mf, generic=True)
                        if gm != model:
                            self.candidates.append((name, gm, list(ctx.decisions), info))
                    except z3.Z3Exception:
                        pass
            else:
                st.inconclusive += 1
                self.inconclusive.append((name, list(ctx.decisions)))
        if not self.reach_checked:
            self.reach_checked = True
            if ctx.check(z3.BoolVal(True)) == "sat":
                st.reach_ok += 1
        if len(self.samples) < 3:
            self.samples.append({
                "decisions": [bool(d) for d in ctx.decisions[:40]],
                "path_condition": [repr(c)[:160] for c, t in ctx.pc if t != "def"][:12],
                "claims": [n for n, _, _ in ctx.claims][:12],
            })
