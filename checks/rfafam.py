"""Harness pieces for the recreate-from-average strategies (C04, C05, C06, C07)."""
import itertools
import math
from fractions import Fraction

import numpy as np

from symx.runner import Family, arr, increasing
from symx.core import Sym
from checks.matchfam import gap_grids, cx

WINDOW = ("LinearFixedRFA", "LinearAdaptiveRFA", "ExpFixedRFA", "ExpAdaptiveRFA")
ALL6 = WINDOW + ("PiecewiseConstantRFA", "CubicSplineRFA")


def num(ctx, v):
    """a harness constant as the number type of the current mode"""
    return ctx.const(Fraction(v)) if ctx.symbolic else float(Fraction(v))


def params_for(strategy, tier):
    """(label, kwargs-as-strings) grids of admissible strategy parameters"""
    if strategy in ("PiecewiseConstantRFA", "CubicSplineRFA"):
        return [{}]
    alphas = ["1", "1/2"] if tier == "quick" else ["1", "1/2", "3/4", "1/4"]
    out = []
    if strategy.startswith("Linear"):
        for al in alphas:
            out.append({"alpha": al})
        out.append({"a": 2})
        out.append({"a": 3})
        if strategy == "LinearAdaptiveRFA":
            out.append({"alpha": "1", "adaptive_smooth": "2"})
            if tier != "quick":
                out.append({"alpha": "1", "adaptive_smooth": "1/2"})
    else:
        exps = ["2", "1"] if tier == "quick" else ["2", "1", "3", "1/2"]
        betas = ["1/2", "1", "0"] if tier == "quick" else ["1/2", "1", "0", "1/4"]
        i = 0
        for al in alphas:
            for be in betas:
                i += 1
                out.append({"alpha": al, "beta": be, "exp": exps[i % len(exps)]})
        out.append({"a": 3, "beta": "1/2", "exp": "2"})
        if strategy == "ExpAdaptiveRFA":
            out.append({"alpha": "1", "beta": "1/2", "exp": "2", "adaptive_smooth": "2"})
    return out


def build_kwargs(ctx, p):
    """keyword arguments for a strategy; the value "sym" makes the parameter a solver variable over its documented
    range (alpha in (0,1], beta in [0,1], exp in (0,4]); one variable per parameter and path"""
    cache = ctx.uf_table("strategy-params")
    key = tuple(sorted((k, str(v)) for k, v in p.items()))
    if key in cache:
        return dict(cache[key])
    kw = {}
    for k, v in p.items():
        if k == "a":
            kw[k] = int(v)
        elif v == "sym":
            t = ctx.real("param_" + k)
            lo, hi, lo_open = {"alpha": (0, 1, True), "beta": (0, 1, False), "exp": (0, 4, True)}[k]
            ctx.assume(ctx.And(ctx.lt(lo, t) if lo_open else ctx.le(lo, t), ctx.le(t, hi)))
            kw[k] = t
        else:
            kw[k] = num(ctx, v)
    cache[key] = dict(kw)
    return kw


def effective_a(p, n, ctx=None):
    """the documented window a = max(2, int(alpha * n)) (or the explicit a); with a symbolic alpha the int() forks
    over the feasible values exactly like the constructor's own int()"""
    if "a" in p:
        a = int(p["a"])
    elif p.get("alpha") == "sym":
        a = int(build_kwargs(ctx, p)["alpha"] * n)
    else:
        a = int(Fraction(p.get("alpha", "1")) * n)
    return max(a, 2)


def linear_part(ctx, p, a_side):
    """b = int(beta * a_side), the documented linear sub-window of the exp strategies"""
    if p.get("beta") == "sym":
        return int(build_kwargs(ctx, p)["beta"] * a_side)
    return math.floor(Fraction(p.get("beta", "1/2")) * a_side)


def make(ctx, strategy, x, y, n, p):
    from traffic_weaver import rfa
    return getattr(rfa, strategy)(x, y, n, **build_kwargs(ctx, p))


# ------------------------------------------------------------------ documented geometry (oracle)

class Geometry:
    """Positions and averages of the n-fold oversampled series including the two virtual intervals
    (one per side, continuing x with the first/last step and y with the first/last value)."""

    def __init__(self, X, Y, n):
        self.X, self.Y, self.n, self.m = X, Y, n, len(X)

    def pos(self, t):
        n, m, X = self.n, self.m, self.X
        if t < 0:
            return X[0] + (X[1] - X[0]) * t / n
        if t > (m - 1) * n:
            return X[m - 1] + (X[m - 1] - X[m - 2]) * (t - (m - 1) * n) / n
        k, j = divmod(t, n)
        if j == 0:
            return X[k]
        return X[k] + (X[k + 1] - X[k]) * j / n

    def avg(self, k):
        return self.Y[min(max(k, 0), self.m - 1)]


def lin(x, p0, p1):
    (x0, y0), (x1, y1) = p0, p1
    return y0 + (y1 - y0) * ((x - x0) / (x1 - x0))


def o_exp(x, p0, p1, al):
    (x0, y0), (x1, y1) = p0, p1
    return y0 + (y1 - y0) * ((x - x0) / (x1 - x0)) ** al


def o_exp_xy(x, p0, p1, al):
    (x0, y0), (x1, y1) = p0, p1
    return y0 + (y1 - y0) * (1 - ((x1 - x) / (x1 - x0)) ** al)


def o_exp_lin(x, p0, p1, al):
    (x0, y0), (x1, y1) = p0, p1
    t = (x - x0) / (x1 - x0)
    return lin(x, p0, p1) * t + o_exp(x, p0, p1, al) * (1 - t)


def o_lin_exp_xy(x, p0, p1, al):
    (x0, y0), (x1, y1) = p0, p1
    t = (x - x0) / (x1 - x0)
    return o_exp_xy(x, p0, p1, al) * t + lin(x, p0, p1) * (1 - t)


def expected_window_series(G, a_l, a_r, b_l=None, b_r=None, exp=None):
    """Documented output of a window strategy given per-interval windows.
    a_l, a_r (and b_l, b_r for the exp strategies) are dicts over interval index -1..m-1
    (virtual ones included).  Returns list of (m-1)*n+1 expected values."""
    n, m = G.n, G.m

    def border(k):
        # value at the border between interval k-1 and k
        if a_r[k - 1] == 0 and a_l[k] == 0:
            return None
        return lin(G.pos(k * n), (G.pos(k * n - a_r[k - 1]), G.avg(k - 1)), (G.pos(k * n + a_l[k]), G.avg(k)))

    out = [None] * ((m - 1) * n + 1)
    for k in range(0, m - 1):
        yk = G.avg(k)
        z0, z1 = border(k), border(k + 1)
        al, ar = a_l[k], a_r[k]
        base = k * n
        vals = {i: yk for i in range(n + 1)}
        if b_l is None:
            for i in range(0, al):
                vals[i] = lin(G.pos(base + i), (G.pos(base), z0), (G.pos(base + al), yk))
            for i in range(n - ar + 1, n + 1):
                vals[i] = lin(G.pos(base + i), (G.pos(base + n - ar), yk), (G.pos(base + n), z1))
        else:
            bl, br = b_l[k], b_r[k]
            zlb = z0 if bl == 0 else lin(G.pos(base + bl), (G.pos(base), z0), (G.pos(base + al), yk))
            zrb = z1 if br == 0 else lin(G.pos(base + n - br), (G.pos(base + n - ar), yk), (G.pos(base + n), z1))
            for i in range(0, bl):
                vals[i] = lin(G.pos(base + i), (G.pos(base), z0), (G.pos(base + bl), zlb))
            for i in range(bl, al):
                vals[i] = o_lin_exp_xy(G.pos(base + i), (G.pos(base + bl), zlb), (G.pos(base + al), yk), exp)
            for i in range(n - ar, n - br):
                vals[i] = o_exp_lin(G.pos(base + i), (G.pos(base + n - ar), yk), (G.pos(base + n - br), zrb), exp)
            for i in range(n - br, n):
                vals[i] = lin(G.pos(base + i), (G.pos(base + n - br), zrb), (G.pos(base + n), z1))
            vals[n] = z1 if z1 is not None else vals[n]
        for i in range(n + 1):
            out[base + i] = vals[i]
    # The very last sample is the start of the (virtual) interval after the series, not an interior border:
    # the documentation does not pin it (the linear strategies put the border interpolation there, the exp
    # strategies leave the last average), so no expectation is attached to it.
    out[(m - 1) * n] = None
    return out


def windows_of(ctx, strategy_obj, strategy, p, G, Xarr, Yarr):
    """windows per interval index -1..m-1 as used by the strategy (fixed: from the constructor's
    documented rule; adaptive: from the public static get_adaptive_transition_points)."""
    n, m = G.n, G.m
    a = effective_a(p, n, ctx)
    if strategy in ("LinearFixedRFA", "ExpFixedRFA"):
        al = {k: a // 2 for k in range(-1, m)}
        ar = dict(al)
        bl = br = None
        if strategy == "ExpFixedRFA":
            b = linear_part(ctx, p, a // 2)
            bl = {k: b for k in range(-1, m)}
            br = dict(bl)
        return a, al, ar, bl, br
    from traffic_weaver import rfa
    from traffic_weaver.interval import IntervalArray
    xs, ys = strategy_obj._initial_oversample()
    xi, yi = IntervalArray(xs, n), IntervalArray(ys, n)
    xi.extend_linspace(direction="both")
    yi.extend_constant(direction="both")
    smooth = num(ctx, p.get("adaptive_smooth", "1"))
    a_ls, a_rs, gammas = rfa.LinearAdaptiveRFA.get_adaptive_transition_points(xi, yi, a, smooth)
    al = {k - 1: int(v) for k, v in enumerate(a_ls)}
    ar = {k - 1: int(v) for k, v in enumerate(a_rs)}
    bl = br = None
    if strategy == "ExpAdaptiveRFA":
        bl = {k: linear_part(ctx, p, v) for k, v in al.items()}
        br = {k: linear_part(ctx, p, v) for k, v in ar.items()}
    return a, al, ar, bl, br


TYPED_Y = [3, -1, 4, 1, 5, 9, 2, 6]


def typed_configs(strategies, n=3):
    """typed inputs: abscissae and/or values handed in as integer-typed arrays / lists of Python ints (the other
    series stays symbolic).  The code converts with dtype=float; a dropped conversion truncates what is stored later."""
    out = []
    for i, s in enumerate(strategies):
        p = {"alpha": "1"} if s in WINDOW else {}
        out.append({"strategy": s, "m": 4, "n": n, "grid": ["0", "1", "3", "4"], "p": p, "typed": "int-x" if i % 2 else "int-x-list"})
        out.append({"strategy": s, "m": 4, "n": n, "grid": ["0", "1", "3", "4"], "p": p, "typed": "int-y" if i % 2 == 0 else "int-y-list"})
    return out


def inputs(ctx, m, grid, typed=None):
    """x: symbolic strictly increasing (grid None) or a concrete rational grid; y symbolic.
    typed: 'int-x' / 'int-x-list' (grid of integers handed in as int64 array / list of ints),
           'int-y' / 'int-y-list' (concrete integer values, x as given by grid)"""
    if typed:
        ctx.typed_inputs = True
    if typed and typed.startswith("int-y"):
        ints = TYPED_Y[:m]
        ys = [Sym.lift(v) for v in ints] if ctx.symbolic else [float(v) for v in ints]
        gx = [Fraction(g) for g in grid]
        X = [Sym.lift(g) for g in gx] if ctx.symbolic else [float(g) for g in gx]
        return cx(ctx, gx), (np.array(ints) if typed == "int-y" else list(ints)), X, ys
    ys = ctx.reals("y", m)
    if typed and typed.startswith("int-x"):
        gi = [int(Fraction(g)) for g in grid]
        X = [Sym.lift(g) for g in gi] if ctx.symbolic else [float(g) for g in gi]
        return (np.array(gi) if typed == "int-x" else list(gi)), arr(ctx, ys), X, ys
    if grid is None:
        xs = ctx.reals("x", m)
        increasing(ctx, xs)
        X = [ctx.exact(v) for v in xs] if not ctx.symbolic else xs
        x = arr(ctx, xs)
    else:
        gx = [Fraction(g) for g in grid]
        X = [Sym.lift(g) for g in gx] if ctx.symbolic else [float(g) for g in gx]
        x = cx(ctx, gx)
    return x, arr(ctx, ys), X, ys


def symbolic_param_configs(tier, strategies=("LinearFixedRFA", "ExpFixedRFA", "ExpAdaptiveRFA")):
    """configurations whose strategy parameters (alpha, beta) are solver variables over their whole documented range:
    the window sizes a = int(alpha n), b = int(beta a_l) fork over every feasible integer"""
    out = []
    for s in strategies:
        adaptive = "Adaptive" in s
        for m in ((3,) if tier == "quick" else (3, 4)):
            for n in ((5, 6) if not adaptive else (3,)) if tier == "quick" else ((5, 6, 7, 8) if not adaptive else (3, 4)):
                grid = [str(g) for g in gap_grids(m, tier, limit=1)[2]]
                p = {"alpha": "sym"} if s.startswith("Linear") else {"alpha": "sym", "beta": "sym", "exp": "2"}
                out.append({"strategy": s, "m": m, "n": n, "grid": grid, "p": p})
    return out


def large_configs(tier, strategies=WINDOW, adaptive=True):
    """larger shapes that stay cheap: the fixed strategies have no value-dependent branch (one path whatever m, n);
    the adaptive ones get few intervals with a wide window"""
    out = []
    for s in strategies:
        is_adaptive = "Adaptive" in s
        if is_adaptive and not adaptive:
            continue
        if s in ("PiecewiseConstantRFA", "CubicSplineRFA"):
            shapes = [(8, 12)]
        elif is_adaptive:
            shapes = [] if tier == "quick" else [(3, 8), (3, 12), (4, 7)]
        else:
            shapes = [(7, 8), (6, 13)] if tier == "quick" else [(7, 8), (6, 13), (9, 16), (12, 24)]
        for (m, n) in shapes:
            grid = [str(g) for g in gap_grids(m, tier, limit=1)[2]]
            if s in ("PiecewiseConstantRFA", "CubicSplineRFA"):
                ps = [{}]
            elif s.startswith("Linear"):
                ps = [{"alpha": "1"}, {"alpha": "3/4"}, {"a": n - 1}] + ([{"alpha": "1", "adaptive_smooth": "2"}] if is_adaptive and m == 3 and n == 8 else [])
            else:
                ps = [{"alpha": "1", "beta": "1/2", "exp": "3"}, {"alpha": "3/4", "beta": "1/3", "exp": "1/2"}, {"a": n - 1, "beta": "1", "exp": "2"},
                      {"alpha": "1", "beta": "0", "exp": "3/2"}]
            if is_adaptive:
                ps = ps[:2] if tier == "quick" else ps
            for p in ps:
                out.append({"strategy": s, "m": m, "n": n, "grid": grid, "p": p})
    return out


def shape_configs(tier, strategies, sym_x_max_m, max_m, ns, adaptive_max_m=None):
    """(strategy, m, n, grid|None, params) combinations"""
    out = []
    for s in strategies:
        adaptive = "Adaptive" in s
        for m in range(2, max_m + 1):
            if adaptive and adaptive_max_m and m > adaptive_max_m:
                continue
            for n in ns:
                # adaptive strategies fork ~(a+3) ways per interval: keep (intervals x window) within reach
                if adaptive and ((m >= 5 and n > 2) or (m == 4 and n > 4)):
                    continue
                grids = []
                if m <= (sym_x_max_m if not adaptive else min(sym_x_max_m, 3)):
                    grids.append(None)
                else:
                    gs = gap_grids(m, tier, limit=1 if tier == "quick" else 3)
                    grids.extend([[str(g) for g in gr] for gr in (gs[:1] + gs[2:])])
                for gi, g in enumerate(grids):
                    ps = params_for(s, tier)
                    for pi, p in enumerate(ps):
                        if tier == "quick" and len(ps) > 3 and (pi + m + n + gi) % 2 and m > 2:
                            continue
                        if "a" in p and int(p["a"]) > n:
                            continue
                        out.append({"strategy": s, "m": m, "n": n, "grid": g, "p": p})
    return out
